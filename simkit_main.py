#!/venv/bin/python
import os, sys
sys.path.insert(0, os.path.dirname(os.path.abspath(__file__)))
from simkit.driver import main
if __name__ == "__main__":
    sys.exit(main(sys.argv[1:]))
