#!/venv/bin/python
"""Regenerate MANIFEST.json from the tables below (checks only for property modules that exist)."""
import json, os, subprocess
V = os.path.dirname(os.path.dirname(os.path.abspath(__file__)))
NA = {
"C02":"Pure function of the document: needs a generator of documents with ground-truth text; no schedule, clock, fault or history in the statement, and a fault only destroys the ground truth.",
"C03":"Unit/page correspondence is a relation between a generated multi-unit document and its result; nothing to interleave, delay or break.",
"C05":"from_json(to_json(x)) == x is an algebraic law over values; no environment seam (I/O, clock, scheduler, fault) takes part in it.",
"C08":"A predicate over encrypted/plain pairs that must be produced by encryption writers; deciding it is input construction, not fault or schedule search.",
"C13":"Table shape/cell fidelity is a pure mapping from a generated source grid to the returned grid.",
"C14":"Bit-exact images, numbering and unit attribution are relations between a generated package and its result; no seam behaviour involved.",
"C16":"MIME decoding and mbox splitting are pure functions of the message grammar; needs a message generator with ground truth, not a transport or schedule.",
"C17":"Removal of script/style/noscript content is a pure function of an HTML grammar with visible/hidden tokens.",
"C19":"A total pure function on trees (small-tree enumeration is model checking / property testing, not simulation).",
"C20":"Equality with FIPS-197 decomposes into exhaustive table checks and differential sampling of a pure function; no nondeterminism or fault involved."}
ENGINES = {
 "netsim": ("simkit/graphsim.py", "in-process Entra+Graph server and faulty transport behind the client's request_func seam; per-request fault enumeration with healthy retry"),
 "detsim": ("simkit/detworker.py", "the same extraction in fresh interpreters differing in PYTHONHASHSEED, simulated clock, heap layout, stream position, order; seeded observer-call histories against a first-seen-value model"),
 "schedsim": ("simkit/sched.py", "real caller threads through the real extractors, parked and released one at a time at sys.monitoring pre-emption points chosen by a seeded scheduler; simulated locks; quiescent-state snapshot oracle"),
 "fssim": ("simkit/fsseam.py", "archives from reference writers (zipfile, tarfile, own 7z writer) with hostile names in a sandboxed host FS with audit log, FS fault injection and consumer close/throw/abandon histories"),
 "iosim": ("simkit/blockdev.py", "block-device faults on stored documents and member-read faults inside containers, through every entry point, under memory/CPU budgets"),
 "envsim": ("simkit/props/c07.py", "host MIME database / cwd perturbation histories interleaved with routing calls"),
}
CHECKS = {
 "C18": ("netsim","fault_enumeration","Seeded simulated libraries (trees, paging policies incl. empty pages, filters on exact/sub-second bounds, multi-call histories) checked against an independent reference walk; for every request index k of each fault-free run x fault kind, the real client is re-run with that fault, must fail inside its own error family with status/URL, leak no open response, and recover completely over a healthy transport within a fresh client's request budget.","DESIGN.md 2.2, 3.C18",
   "Server, responses and transport are stubs (GraphSim); urllib is not exercised; libraries are sampled by seed, (k, kind) enumeration is complete per library up to a cap.","deterministic simulation: fake Graph/Entra peer + per-request fault enumeration with bounded-recovery oracle"),
 "C06": ("detsim","exploration","Every corpus document (and faulted-but-accepted variants) is extracted in several fresh interpreters that differ in hash seed, simulated clock (advancing on each read), heap layout, stream start position and batch order, twice per process; canonical to_json digests must be identical and the caller's buffer untouched. Seeded observer-call histories on one result are checked against a first-seen-value model and the to_json taken right after extraction.","DESIGN.md 2.5, 3.C06",
   "Clock seam covers datetime/time bindings of the library and its parser packages; path argument names a non-existent file (documented metadata dependence held constant); sampling, not proof.","deterministic simulation of configurations (hash seed, clock, heap, process) + seeded observer histories vs reference model"),
 "C15": ("schedsim","exploration","k real threads run real extractions under a seeded pre-emptive scheduler (one runs at a time; switches only at instrumented call/line events, recorded and replayable); every result must equal its isolated baseline and at quiescence the process-global state (pypdf/olefile/openpyxl/... module and class attributes, archive config, temp root, fds, threads) must equal the snapshot taken before; sequential histories incl. failing inputs likewise.","DESIGN.md 2.1, 3.C15",
   "Pre-emption only at Python call/line events of instrumented modules, never inside C code; memo tables may grow (their soundness is checked through results).","deterministic thread-schedule simulation (baton passing on sys.monitoring events) with state-snapshot and baseline-result oracles"),
 "C09": ("fssim","fault_enumeration","Archives built by independent writers over a hostile member-name grammar are processed inside a sandbox with canary files and an audit hook on every file-system call; every consumer cut point (exhaust, close/throw/drop after k) and every FS fault position (ENOSPC/EIO/EACCES on the j-th call) is enumerated; nothing outside the private temp dir may be touched, no canary content may appear in results, the temp dir and fds must be gone afterwards, skip rules must hold.","DESIGN.md 2.3, 3.C09",
   "Audit hook sees pure-Python I/O (not C-level opens inside extension modules); 7z writer is home-made (validated against the repo reader and the one real 7-Zip fixture).","deterministic simulation of the host file system (sandbox + audit log + FS fault injection) with enumerated consumer crash points"),
 "C10": ("fssim","fault_enumeration","For archives from zipfile/tarfile/the independent 7z writer in every layout, read_archive must equal the per-member reference (same extractor on the member's bytes with archive!/member path) in order; then each member k in turn is corrupted (pre-pack fault, or post-pack flip inside its data for ZIP/TAR) and every other member must still equal its reference without the call raising.","DESIGN.md 2.3, 3.C10",
   "Reference = the library's own extractor on the isolated member; post-pack faults are not applied to solid/compressed-stream layouts where damage legitimately spreads.","deterministic simulation with per-member fault enumeration against a reference model"),
 "C01": ("iosim","exploration","Storage faults (truncate, bit flips, zeroed/duplicated/swapped/spliced sectors, stale tail, misdirected file) and member-read faults inside ZIP/OLE/TAR containers on a corpus covering all 21 extractors, through five entry points (direct, read_file, CLI, archive member, e-mail attachment); only ExtractionError may escape, the CLI contract must hold, and CPU/wall budgets detect hangs (confirmed twice).","DESIGN.md 2.4, 3.C01",
   "Byte-content faults only (stream-level I/O errors are outside the statement); hang oracle is a budget with two orders of magnitude headroom.","deterministic simulation of a faulty block device / container member reads with type, CLI and termination oracles"),
 "C04": ("iosim","exploration","The same fault space as C01 restricted to damaged-but-accepted and fault-free documents: every accessor of every result/unit/image/table must return well-formed values (str encodable as UTF-8, positive numbers, stream at 0 with reported size, dims = table shape, path-derived metadata), never raise; document properties are compared with an independent stdlib reader.","DESIGN.md 3.C04",
   "Nothing is demanded about what text a damaged file yields.","deterministic simulation of storage faults with a never-return-garbage oracle over the common interface"),
 "C11": ("iosim","exploration","ZIP central directories forged to sit on either side of every limit are served to the real validators (in-memory ZipInfo lists and real ZIPs) and compared with a reference predicate; for all ZIP-container extractors the member-read event log must show zero member opens before validation / before a zip-bomb rejection, and the caller's stream position must be preserved.","DESIGN.md 3.C11",
   "Predicate half is seeded generation against a 20-line model (no fault or schedule in it); ordering half is an I/O event-history invariant at the ZipFile seam.","deterministic simulation at the ZIP member-read seam: forged directories + event-order monitor + reference predicate"),
 "C12": ("iosim","exploration","Count/length-field faults and extreme-ratio members run under RLIMIT_AS and CPU budgets scaled by input size; explicit limits are checked at exact sizes (max_file_size -1/0/+1, 7z 100 MB, per-member N/N+1) with the I/O log proving that refused or skipped data was never opened, decompressed or written.","DESIGN.md 3.C12",
   "Budget constants calibrated with >= 8x headroom on the fault-free corpus; candidates are confirmed twice alone.","deterministic simulation of storage/count-field faults under resource budgets + exact-limit I/O history checks"),
 "C07": ("envsim","exploration","Routing calls on generated path strings interleaved with perturbations of the host MIME database (emptied, hostile overrides, re-init from sandbox files), cwd and file existence; is_supported_file <=> get_extractor, decisions made by the extension must not change with the database, case/alias invariance, read_file/archive/attachment dispatch equals get_extractor.","DESIGN.md 2.6, 3.C07",
   "Oracle is relational (never predicts support for unknown extensions); README table transcribed at design time.","deterministic simulation of host-configuration histories (MIME database, cwd, files) with relational routing oracle"),
}
def main():
    checks=[]; engines={}
    for pid,(eng,level,text,ref,note,tech) in sorted(CHECKS.items()):
        if not os.path.exists(os.path.join(V,'simkit','props',pid.lower()+'.py')): continue
        if os.environ.get('ONLY') and pid not in os.environ['ONLY'].split(','): continue
        checks.append({"property_id":pid,"quick_cmd":f"./check {pid} --tier quick","thorough_cmd":f"./check {pid} --tier thorough","evidence_file":f"evidence/{pid}.json",
          "replay_cmd_template":f"./check {pid} --replay {{path}}","engine":eng,"level_claimed":{"category":level,"text":text,"design_ref":ref},"level_note":note,"technique":tech})
        engines.setdefault(eng,[]).append(pid)
    claimed={c['property_id'] for c in checks}
    na=[{"property_id":k,"reason":v} for k,v in NA.items()]
    for pid in sorted(CHECKS):
        if pid not in claimed:
            na.append({"property_id":pid,"reason":"check not built yet in this snapshot (planned, see DESIGN.md section 3); claimed once its engine exists"})
    m={"version":1,"setup_cmd":"cd /verif && ./check setup",
     "hooks":{"guard":"SHAREPOINT2TEXT_VERIF","enable":"no source hooks exist; every seam is reached from outside (arguments, module attributes, sys.monitoring, audit hooks)","baseline_off_cmd":"cd /repo && /venv/bin/python -m pytest -ra -q -p no:cacheprovider --timeout=900","source_commits":[],"add_only":True},
     "engines":[{"name":e,"path":ENGINES[e][0],"serves_properties":ps,"kind_free_text":ENGINES[e][1]} for e,ps in engines.items()],
     "checks":checks,
     "notes":"See DESIGN.md. Technique: deterministic simulation with fault injection; VERIF_SEED decides every run; exit 0 held / 1 VIOLATION / 2 harness error. known_findings.json lists fixed and known findings; regress/<id>/ replays of fixed defects run first.",
     "not_applicable":sorted(na,key=lambda x:x['property_id'])}
    json.dump(m,open(os.path.join(V,'MANIFEST.json'),'w'),indent=1)
    print('checks:',[c['property_id'] for c in checks])
main()
