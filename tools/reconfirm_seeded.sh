#!/bin/bash
# usage: tools/reconfirm_seeded.sh [ids...] -- after a fix: commit in /repo: does each seeded mutant still apply, and does its demo still pass on the
# clean tree and fail with the patch?  (scratch worktree; /repo untouched)
cd /verif
ids="$@"; [ -z "$ids" ] && ids=$(ls seeded)
wt=$(mktemp -d /tmp/rc-XXXXXX)/wt
git -C /repo worktree add -q --detach "$wt" HEAD || exit 9
for id in $ids; do
  git -C "$wt" checkout -q -- . ; git -C "$wt" clean -fdq
  (cd "$wt" && PYTHONPATH="$wt" timeout 300 /venv/bin/python /verif/seeded/$id/demo.py >/dev/null 2>&1); c=$?
  if ! git -C "$wt" apply /verif/seeded/$id/patch.diff 2>/dev/null; then echo "$id: NOAPPLY"; continue; fi
  (cd "$wt" && PYTHONPATH="$wt" timeout 300 /venv/bin/python /verif/seeded/$id/demo.py >/dev/null 2>&1); m=$?
  st=ok; [ $c -eq 0 ] || st="DEMO_FAILS_ON_CLEAN($c)"; [ $m -ne 0 ] || st="DEMO_PASSES_ON_MUTANT"
  echo "$id clean=$c mutant=$m $st"
done
git -C /repo worktree remove --force "$wt"; rmdir "$(dirname "$wt")" 2>/dev/null
