#!/venv/bin/python
"""print the markdown table of seeded changes and which check caught them (from seeded/*/meta.json)"""
import glob, json, os
rows=[]
for f in sorted(glob.glob('/verif/seeded/*/meta.json')):
    m=json.load(open(f)); d=m.get('detected_by') or {}
    first=(d.get('first') or [''])[0]
    cls=''
    if 'class=' in first:
        cls=first.split('class=')[1].split(' runs=')[0][:90]
    caught = 'yes' if d.get('exit')==1 and d.get('violation_lines',0)>0 else ('no' if d else 'not run')
    rows.append(f"| {m['id']} | {', '.join(os.path.basename(x) for x in (m.get('files') or []))[:60]} | {str(m.get('needs'))[:140].replace('|','/')} | {caught} | {cls.replace('|','/')} |")
print("| id | file(s) | needs | caught by its property's quick check | first violation (class sig) |\n|---|---|---|---|---|")
print("\n".join(rows))
