#!/bin/bash
# usage: tools/run_seeded.sh [ids...]   -- applies each seeded/<id>/patch.diff to /repo, runs the quick check of its property, reverts; records detected_by in meta.json
cd /verif
ids="$@"; [ -z "$ids" ] && ids=$(ls seeded)
for id in $ids; do
  prop=$(/venv/bin/python -c "import json;print(json.load(open('seeded/$id/meta.json'))['property'])")
  if ! git -C /repo diff --quiet; then echo "repo dirty"; exit 9; fi
  if ! git -C /repo apply /verif/seeded/$id/patch.diff 2>/dev/null; then echo "$id: patch does not apply"; continue; fi
  out=$(timeout 2400 ./check $prop --tier quick 2>&1); rc=$?
  git -C /repo checkout -- .
  first=$(echo "$out" | grep "^VIOLATION" | head -3 | sed 's/replay=[^ ]* //' | cut -c1-220)
  nv=$(echo "$out" | grep -c "^VIOLATION")
  echo "$id prop=$prop exit=$rc violations=$nv"
  /venv/bin/python - "$id" "$prop" "$rc" "$nv" "$first" <<'PY'
import json,sys
id_,prop,rc,nv,first=sys.argv[1:]
p=f'/verif/seeded/{id_}/meta.json'; m=json.load(open(p))
m['detected_by']={"check":prop,"tier":"quick","exit":int(rc),"violation_lines":int(nv),"first":first.split("\n")}
m['what_i_ran']=f"git -C /repo apply seeded/{id_}/patch.diff; ./check {prop} --tier quick; git -C /repo checkout -- ."
json.dump(m,open(p,'w'),indent=1)
PY
done
