#!/bin/bash
# usage (from a /verif checkout or a vp-run snapshot): tools/sweep_seeded.sh <repo-copy> [ids...]
# Applies each seeded mutant to <repo-copy> (a scratch copy / $VP_RUN_REPO, never /repo), runs its property's quick check with VERIF_REPO pointing
# there, reverts, prints one result line per mutant.  tools/apply_sweep.py turns the log into meta.json updates.
here="$(cd "$(dirname "$0")/.." && pwd)"; cd "$here"
rp="$1"; shift
ids="$@"; [ -z "$ids" ] && ids=$(ls seeded)
for id in $ids; do
  prop=$(/venv/bin/python -c "import json;print(json.load(open('seeded/$id/meta.json'))['property'])")
  git -C "$rp" checkout -q -- . 2>/dev/null
  if ! git -C "$rp" apply "$here/seeded/$id/patch.diff" 2>/dev/null; then echo "SWEEP $id prop=$prop NOAPPLY"; continue; fi
  out=$(VERIF_MAX_REPORT=${SW_MAX_REPORT:-2} VERIF_REPO="$rp" timeout 2400 ./check $prop --tier quick --workers ${SW_WORKERS:-16} 2>&1); rc=$?
  git -C "$rp" checkout -q -- .
  nv=$(echo "$out" | grep -c "^VIOLATION")
  first=$(echo "$out" | grep "^VIOLATION" | head -3 | sed 's/replay=[^ ]* //' | cut -c1-220 | tr '\n' '\t')
  echo "SWEEP $id prop=$prop exit=$rc violations=$nv first=$first"
done
