#!/bin/bash
# usage: tools/try_mutant.sh <patch.diff> <PROP> [budget_s] [extra check args]  -- applies to /repo, runs check, reverts
set -u
diff="$(readlink -f "$1")"; prop="$2"; budget="${3:-40}"; shift 3 2>/dev/null
cd /repo || exit 9
if ! git diff --quiet; then echo "repo dirty"; exit 9; fi
git apply "$diff" || { echo "apply failed"; exit 9; }
cd /verif
timeout 1800 ./check "$prop" --budget "$budget" "$@" 2>&1 | grep -v "^  detail" | cut -c1-260 | tail -8
rc=${PIPESTATUS[0]}
git -C /repo checkout -- . 
echo "exit=$rc"
