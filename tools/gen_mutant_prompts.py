#!/venv/bin/python
"""usage: tools/gen_mutant_prompts.py <round> [n_mutants]  -- writes /tmp/mut/prompt<round>_<ID>.txt for every claimed property.
A prompt holds only the text of the property (from properties.jsonl), the ways to run things in a private worktree /tmp/mut/r<round>_<ID>,
and one-line summaries of the ideas earlier sub-agents already used (from seeded/*/meta.json) -- nothing about the checks."""
import json, os, sys
rnd = sys.argv[1]
nm = int(sys.argv[2]) if len(sys.argv) > 2 else 2
props = {json.loads(l)["id"]: json.loads(l) for l in open("/verif/properties.jsonl")}
claimed = [c["property_id"] if "property_id" in c else c["id"] for c in json.load(open("/verif/MANIFEST.json"))["checks"]]
used = {}
for d in sorted(os.listdir("/verif/seeded")):
    m = json.load(open(f"/verif/seeded/{d}/meta.json"))
    used.setdefault(m["property"], []).append(f"- files {m.get('files')}: {str(m.get('breaks'))[:120]} (needs: {str(m.get('needs'))[:150]})")
T = '''You are helping evaluate a verification tool by producing realistic *property-breaking* code changes ("mutants") for the open-source Python library sharepoint-to-text (pure-Python text extraction from Office/ODF/PDF/RTF/EPUB/email/archive files, plus a small SharePoint Graph client).

Your private scratch git worktree of the library is at {wt} (detached HEAD). Work ONLY inside {wt} and write your deliverables to {out}. Do NOT read or touch /repo, /verif or any other /tmp/mut/* directory. There is no network. Do NOT use `git stash` (the stash is shared between worktrees and other people work next to you); to get back to the clean tree use `git -C {wt} checkout -- .` after saving your diff.

How to run things: the interpreter is /venv/bin/python. Always run with cwd={wt} and PYTHONPATH={wt} so the worktree's package is imported (check `sharepoint2text.__file__`). The existing test suite is run with:
  cd {wt} && PYTHONPATH={wt} timeout 900 /venv/bin/python -m pytest -q -p no:cacheprovider --timeout=900
On the unmodified tree exactly 3 tests fail (test_read_doc__image_extraction_1, test_read_doc__image_extraction_2, test_extract_serialize_deserialize_file -- their fixture files are empty placeholders) and 236 pass. That is the baseline: "passing the existing tests" means those same 236 still pass.

The property (treat this text as the specification; it is all you get):

  ID: {id}
  TITLE: {title}
  STATEMENT: {statement}
  QUANTIFIED OVER: {quant}

Task: produce {nm} DIFFERENT, independent source changes to the library (non-test code under {wt}/sharepoint2text/, not tests, not fixtures), each of which
  (a) is a realistic change a developer could plausibly make (a refactor, an optimisation, a "simplification", an off-by-one, a narrowed/moved try-except, a cache, reordered statements, a wrong comparison operator, ...) -- not sabotage that looks deliberate, not a syntax error;
  (b) still imports/compiles and leaves all 236 baseline-passing tests passing;
  (c) BREAKS the property above, but only under something SPECIFIC: a particular interleaving or history of calls, a fault/corruption at a particular point, a multi-step sequence, an unusual input or configuration, or two cooperating code sites that each look fine alone. Do NOT make changes that ordinary use (e.g. extracting any normal file once) would expose at once.
  Prefer variety: the changes should touch different mechanisms/code sites and different clauses of the property.

For each change i = 1..{nm} deliver in {out}:
  - mut{{i}}.diff : unified diff produced by `git -C {wt} diff` (must apply with `git apply` on a clean checkout of the same commit). Make one change at a time: after saving a diff run `git -C {wt} checkout -- .` to restore the tree before starting the next one.
  - demo{{i}}.py : a small standalone program run as `cd <tree> && PYTHONPATH=<tree> /venv/bin/python demo{{i}}.py` (it must import the package from PYTHONPATH / cwd, not hard-code {wt}) that exits 0 on the unmodified tree and exits non-zero (with a short message explaining the observed violation) on the tree with mut{{i}}.diff applied. It may build its own input files in a temp dir and may use fixtures under sharepoint2text/tests/resources/.
  - an entry in {out}/notes.json (a JSON list) with keys: "mutant" (i), "files" (touched), "clause" (which part of the property it breaks), "needs" (what specific condition is needed for it to manifest), "why_tests_pass" (one line).
You MUST verify for each: full test suite result with the change (236 pass, same 3 fail), demo fails with the change, demo passes without it. Report the exact commands and outcomes in your final message. Leave the worktree clean (git checkout -- .) at the end. Keep the final message short: a table of the mutants and verification outcomes.

One more thing, only if you come across it while reading (do not spend long on it): if the UNMODIFIED library already seems to violate the property for some specific input or sequence, say so at the end of your final message (what input, what you expect to happen, whether you ran it).

The following ideas were ALREADY used by others for this property -- do NOT repeat them or close variants; pick other mechanisms, other code sites (prefer files not listed below) and other clauses of the property. Changes that need a particular sequence of calls, an interleaving, a fault at a particular position, or two cooperating code sites are especially welcome; so are changes in rarely exercised formats or code paths:
{used}
'''
os.makedirs("/tmp/mut", exist_ok=True)
for pid in claimed:
    p = props[pid]
    wt, out = f"/tmp/mut/r{rnd}_{pid}", f"/tmp/mut/out{rnd}_{pid}"
    os.makedirs(out, exist_ok=True)
    txt = T.format(wt=wt, out=out, id=pid, title=p["title"], statement=p["statement"], quant=p["quantifier"]["text"], nm=nm, used="\n".join(used.get(pid, [])))
    open(f"/tmp/mut/prompt{rnd}_{pid}.txt", "w").write(txt)
    print(pid, len(txt))
