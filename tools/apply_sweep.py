#!/venv/bin/python
"""usage: tools/apply_sweep.py <sweep log>... -- records the sweep results (tools/sweep_seeded.sh) in seeded/<id>/meta.json"""
import json, re, sys
for fn in sys.argv[1:]:
    for line in open(fn, errors="replace"):
        m = re.match(r"SWEEP (\S+) prop=(\S+) exit=(\d+) violations=(\d+) first=(.*)$", line.rstrip("\n"))
        if not m:
            continue
        id_, prop, rc, nv, first = m.groups()
        p = f"/verif/seeded/{id_}/meta.json"
        try:
            meta = json.load(open(p))
        except OSError:
            continue
        meta["detected_by"] = {"check": prop, "tier": "quick", "exit": int(rc), "violation_lines": int(nv), "first": [x for x in first.split("\t") if x]}
        meta["what_i_ran"] = (f"scratch copy of /repo HEAD: git apply seeded/{id_}/patch.diff; VERIF_REPO=<copy> ./check {prop} --tier quick; git checkout -- . "
                              "(tools/sweep_seeded.sh; same effect as applying to /repo, which stays untouched)")
        json.dump(meta, open(p, "w"), indent=1)
        print(id_, "exit", rc, "violations", nv)
