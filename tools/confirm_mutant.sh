#!/bin/bash
# usage: tools/confirm_mutant.sh <outdir> <i> <seeded-id> <PROP>
# scratch worktree: demo passes on clean tree, fails with the patch, test suite still 236 pass / same 3 fail.
out="$1"; i="$2"; id="$3"; prop="$4"
wt=$(mktemp -d /tmp/cm-XXXXXX)/wt
git -C /repo worktree add -q --detach "$wt" HEAD || exit 9
cd "$wt"
res=ok
PYTHONPATH="$wt" timeout 300 /venv/bin/python "$out/demo$i.py" >/tmp/cm-$id.clean.log 2>&1; rc_clean=$?
git apply "$out/mut$i.diff" || res=apply_failed
PYTHONPATH="$wt" timeout 300 /venv/bin/python "$out/demo$i.py" >/tmp/cm-$id.mut.log 2>&1; rc_mut=$?
PYTHONPATH="$wt" timeout 900 /venv/bin/python -m pytest -q -p no:cacheprovider --timeout=900 -x --deselect sharepoint2text/tests/test_extractions.py::test_read_doc__image_extraction_1 --deselect sharepoint2text/tests/test_extractions.py::test_read_doc__image_extraction_2 --deselect sharepoint2text/tests/test_integration.py::test_extract_serialize_deserialize_file 2>&1 | tail -1 > /tmp/cm-$id.tests.log
tests=$(cat /tmp/cm-$id.tests.log)
cd /; git -C /repo worktree remove --force "$wt"; rmdir "$(dirname "$wt")" 2>/dev/null
[ $rc_clean -eq 0 ] || res="demo_fails_on_clean($rc_clean)"
[ $rc_mut -ne 0 ] || res="demo_passes_on_mutant"
echo "$tests" | grep -q "236 passed" || res="tests:$tests"
echo "$id: clean_rc=$rc_clean mutant_rc=$rc_mut tests='$tests' => $res"
if [ "$res" = ok ]; then
  d=/verif/seeded/$id; mkdir -p $d
  cp "$out/mut$i.diff" $d/patch.diff; cp "$out/demo$i.py" $d/demo.py
  /venv/bin/python - "$out" "$i" "$id" "$prop" "$tests" "$rc_clean" "$rc_mut" <<'PY'
import json,sys
out,i,id_,prop,tests,rc_clean,rc_mut=sys.argv[1:]
notes=json.load(open(out+'/notes.json'))
n=[x for x in notes if str(x.get('mutant'))==i][0]
meta={"id":id_,"property":prop,"breaks":n.get('clause'),"needs":n.get('needs'),"files":n.get('files'),"why_tests_pass":n.get('why_tests_pass'),
 "confirmed":{"demo_on_clean_tree_rc":int(rc_clean),"demo_with_patch_rc":int(rc_mut),"test_suite_with_patch":tests.strip(),
 "how":"tools/confirm_mutant.sh: scratch worktree of /repo HEAD; demo.py; git apply patch.diff; demo.py; pytest (3 baseline-failing tests deselected)"},
 "detected_by":None}
json.dump(meta,open(f'/verif/seeded/{id_}/meta.json','w'),indent=1)
PY
fi
