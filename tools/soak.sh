#!/bin/bash
# usage: tools/soak.sh <tier> <seeds...>  -- every claimed check on the unchanged tree with several VERIF_SEEDs; prints exit codes
tier="$1"; shift
cd "$(cd "$(dirname "$0")/.." && pwd)"
for seed in "$@"; do
  for p in C18 C07 C11 C10 C09 C06 C01 C04 C12 C15; do
    out=$(VERIF_SEED=$seed timeout 7200 ./check $p --tier $tier 2>&1); rc=$?
    echo "seed=$seed $p exit=$rc $(echo "$out" | grep '^\[' | tail -1)"
    echo "$out" | grep "^VIOLATION\|HARNESS_ERROR\|warning: determinism" | cut -c1-400
  done
done
