#!/bin/bash
# usage: tools/prescreen_wt.sh <id>...  -- runs each seeded mutant's property check against a scratch worktree (VERIF_REPO), /repo untouched
cd /verif
for id in "$@"; do
  prop=$(/venv/bin/python -c "import json;print(json.load(open('seeded/$id/meta.json'))['property'])")
  wt=/tmp/pswt-$id
  git -C /repo worktree add -q --detach $wt HEAD || continue
  if ! git -C $wt apply /verif/seeded/$id/patch.diff 2>/dev/null; then echo "$id: patch does not apply"; git -C /repo worktree remove --force $wt; continue; fi
  out=$(VERIF_REPO=$wt timeout 1800 ./check $prop --tier quick --workers ${PS_WORKERS:-6} 2>&1); rc=$?
  git -C /repo worktree remove --force $wt
  echo "$id prop=$prop exit=$rc violations=$(echo "$out" | grep -c '^VIOLATION') :: $(echo "$out" | grep '^VIOLATION' | head -1 | sed 's/replay=[^ ]* //' | cut -c1-160)"
done
