#!/venv/bin/python
"""regenerate the generated parts of DESIGN.md section 11 (findings tables, seeded table) from known_findings.json and seeded/*/meta.json"""
import json, re, subprocess, os
V='/verif'
kf=json.load(open(f'{V}/known_findings.json'))
fixed=[e for e in kf if e['status']=='fixed']; known=[e for e in kf if e['status']=='known']
def clean(w): return w.replace('|','/').replace('\n',' ')
t_fixed="| property | commit | defect (with regress replay) |\n|---|---|---|\n"+"\n".join(f"| {e['property']} | `{e['commit']}` | {clean(re.sub(r'^fixed: property=C\d+ [0-9a-f]+ ','',e['what']))} |" for e in fixed)
t_known="| id | property | what | signature matched |\n|---|---|---|---|\n"+"\n".join(f"| `{e['id']}` | {e['property']} | {clean(e['what'])[:420]} | class `{e['match'].get('class')}`, sig `{clean(e['match'].get('sig_re') or e['match'].get('sig',''))[:110]}` |" for e in known)
seeded=subprocess.check_output([f'{V}/tools/seeded_table.py'],text=True)
s=open(f'{V}/DESIGN.md').read()
def put(tag, body):
    global s
    a=f'<!-- BEGIN {tag} -->'; b=f'<!-- END {tag} -->'
    if a in s:
        s=s[:s.index(a)+len(a)]+'\n'+body+'\n'+s[s.index(b):]
    else:
        raise SystemExit('missing marker '+tag)
put('FIXED', t_fixed); put('KNOWN', t_known); put('SEEDED', seeded)
open(f'{V}/DESIGN.md','w').write(s)
print('fixed',len(fixed),'known',len(known))
