"""detsim configuration process: a fresh interpreter (own PYTHONHASHSEED) extracting a batch under a simulated clock."""
import base64
import io
import json
import os
import sys


class _DocTimeout(BaseException):
    pass


def _has_timeout(e):
    n = 0
    while e is not None and n < 8:
        if isinstance(e, _DocTimeout):
            return True
        e = e.__cause__ or e.__context__
        n += 1
    return False


def main():
    spec = json.load(sys.stdin)
    # the result travels on a private copy of fd 1; whatever the code under test print()s goes to stderr instead
    result_out = os.fdopen(os.dup(1), "w")
    os.dup2(2, 1)
    sys.path.insert(0, spec["verif"])
    import logging
    import warnings
    logging.disable(logging.CRITICAL)
    warnings.simplefilter("ignore")
    from simkit import canon, clockseam, corpus
    import sharepoint2text
    assert os.path.realpath(sharepoint2text.__file__).startswith(os.path.realpath(spec["repo"]) + os.sep), sharepoint2text.__file__
    junk = [object() for _ in range(spec.get("junk", 0))]
    junk2 = [bytearray(64) for _ in range(spec.get("junk", 0) // 8)]
    # no up-front imports: extractor modules load lazily, in the order this configuration uses them
    clock = clockseam.install(spec["clock"]["base"], spec["clock"]["step"])
    from sharepoint2text.parsing.router import get_extractor
    out = {}
    docs = spec["docs"]
    order = spec.get("order") or list(range(len(docs)))
    for i in order:
        d = docs[i]
        data = base64.b64decode(d["b64"]) if "b64" in d else open(d["file"], "rb").read()
        rec = {"digests": [], "err": None}
        for rep in range(2):
            bio = io.BytesIO(data)
            pos = d.get("pos", 0) if rep == 0 else 0
            bio.seek(min(pos, len(data)))
            clock.repatch()
            import signal

            def _too_long(signum, frame):
                raise _DocTimeout()

            signal.signal(signal.SIGVTALRM, _too_long)
            signal.setitimer(signal.ITIMER_VIRTUAL, 25.0)  # termination is C01's property: a runaway document is skipped here
            try:
                rs = list(get_extractor(d["route"])(bio, d.get("path")))
                tree = [r.to_json() for r in rs]
                s = canon.dumps(tree)
                import hashlib
                rec["digests"].append(hashlib.sha256(s.encode()).hexdigest()[:24])
                if d["name"] in spec.get("want_tree", []):
                    rec.setdefault("trees", []).append(canon.canon(tree))
                    rec["types"] = [type(r).__name__ for r in rs]
            except _DocTimeout:
                rec["digests"].append("SKIPPED:cpu_budget")
            except Exception as e:
                if _has_timeout(e):
                    rec["digests"].append("SKIPPED:cpu_budget")
                else:
                    rec["digests"].append("EXC:" + type(e).__name__)
                    rec["err"] = repr(e)[:300]
            finally:
                signal.setitimer(signal.ITIMER_VIRTUAL, 0)
            if bio.getvalue() != data:
                rec["buffer_changed"] = True
        out[d["name"]] = rec
    json.dump({"results": out, "clock_reads": clock.reads, "clock_patched": clock.patched, "hashseed": os.environ.get("PYTHONHASHSEED")}, result_out)
    result_out.flush()


if __name__ == "__main__":
    main()
