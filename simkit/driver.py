"""Check driver: seeds -> forked runs -> oracle records -> known findings / minimise / fresh replay -> evidence."""
from __future__ import annotations

import argparse
import collections
import importlib
import itertools
import json
import os
import random
import subprocess
import sys
import time

from . import kernel as K

CLAIMED = ["C01", "C04", "C06", "C07", "C09", "C10", "C11", "C12", "C15", "C18"]
MAIN = os.path.join(K.VERIF, "simkit_main.py")


def load(prop: str):
    return importlib.import_module(f"simkit.props.{prop.lower()}")


def _size(case) -> int:
    return len(K.jdump(case))


class Runner:
    def __init__(self, mod, tier: str, seed: int, budget: float | None, workers: int):
        self.mod = mod
        self.tier = tier
        self.seed = seed
        self.budget = budget if budget is not None else mod.BUDGET[tier]
        self.workers = workers
        self.known = K.Known()
        self.run_timeout = getattr(mod, "RUN_TIMEOUT", 60.0)

    # ---- child side
    def child(self, payload):
        mod = self.mod
        if "case" in payload:
            case = payload["case"]
        else:
            case = mod.gen_case(random.Random(payload["seed"]), self.tier)
        frozen = K.jdump(case)
        rec = mod.run_case(case)
        if K.jdump(case) != frozen:
            # the code under test (or the harness) wrote into the case: the recorded case must be the one that was run
            case = json.loads(frozen)
            rec.setdefault("probes", {})["case_object_mutated_by_run"] = 1
        if rec.get("violations") or payload.get("want_case"):
            rec["case"] = case
        return rec

    def exec_cases(self, cases, workers=None, timeout=None):
        """Run explicit cases; returns list of records in order."""
        out = [None] * len(cases)
        jobs = [(i, {"case": c, "want_case": False}) for i, c in enumerate(cases)]
        for tag, _p, rec in K.run_forked(jobs, self.child, workers=workers or self.workers,
                                         run_timeout=timeout or self.run_timeout):
            out[tag] = rec
        return out

    def _classify_harness(self, rec, case):
        """Engines may turn a killed/crashed child into a violation candidate (hang / memory oracles)."""
        f = getattr(self.mod, "classify_harness", None)
        if f is None:
            return None
        return f(rec, case)

    def reproduces(self, rec, key) -> bool:
        if rec is None:
            return False
        if "_harness" in rec:
            v = self._classify_harness(rec, None)
            return bool(v) and not v.get("ignore") and (v["class"], v["sig"]) == key
        return any((v["class"], v["sig"]) == key for v in rec.get("violations", []))

    # ---- minimiser
    def minimise(self, case, key, max_execs=300, max_s=None):
        max_s = max_s or getattr(self.mod, 'SHRINK_MAX_S', 120.0)
        shrink = getattr(self.mod, "shrink", None)
        if shrink is None:
            return case, {"execs": 0}
        t0 = time.time()
        execs = 0
        best = case
        start = _size(case)
        improved = True
        tmo = getattr(self.mod, "SHRINK_TIMEOUT", self.run_timeout)
        while improved and execs < max_execs and time.time() - t0 < max_s:
            improved = False
            cands = list(itertools.islice(shrink(best), 96))
            for off in range(0, len(cands), self.workers):
                chunk = cands[off: off + self.workers]
                recs = self.exec_cases(chunk, timeout=tmo)
                execs += len(chunk)
                for c, r in zip(chunk, recs):
                    if self.reproduces(r, key):
                        best = c
                        improved = True
                        break
                if improved or execs >= max_execs or time.time() - t0 > max_s:
                    break
        return best, {"execs": execs, "from_size": start, "to_size": _size(best), "wall_s": round(time.time() - t0, 1)}

    def write_replay(self, case, v, info, tag) -> str:
        d = os.path.join(K.VERIF, "replays", self.mod.ID)
        os.makedirs(d, exist_ok=True)
        name = f"{self.mod.ID}-{K.h64(v['class'], v['sig']) % 10**8:08d}-s{self.seed}.json"
        path = os.path.join(d, name)
        doc = {"property": self.mod.ID, "engine": self.mod.ENGINE, "seed": self.seed, "run": tag,
               "expect": {"class": v["class"], "sig": v["sig"]}, "detail": v.get("detail"),
               "minimised": info, "case": case}
        with open(path, "w") as f:
            f.write(json.dumps(doc, indent=1, default=K._json_default))
        return path

    def confirm_fresh(self, path, key) -> bool:
        env = {k: v for k, v in os.environ.items() if k != "S2TSIM_PINNED"}
        try:
            p = subprocess.run([sys.executable, MAIN, self.mod.ID, "--replay", path], env=env,
                               capture_output=True, text=True, timeout=max(300, self.run_timeout * 4))
        except subprocess.TimeoutExpired:
            return False
        bc = getattr(self.mod, "BUDGET_CLASSES", ())
        if key[0] in bc:
            return p.returncode == 1 and any(f"class={c} sig=" in p.stdout for c in bc)
        return p.returncode == 1 and f"class={key[0]} sig={key[1]}" in p.stdout

    # ---- main loop
    def run(self) -> int:
        mod = self.mod
        t_start = time.time()
        agg = {
            "evaluations": 0, "runs": 0, "steps": 0, "faults": collections.Counter(), "probes": collections.Counter(),
            "outcomes": collections.Counter(), "states": set(), "nontrivial": set(), "samples": [],
            "harness": [], "unconfirmed": 0, "known_hit": collections.Counter(), "digests": {},
        }
        viol: dict[tuple, tuple] = {}
        viol_count = collections.Counter()
        pending_harness = []

        def consume(tag, payload, rec):
            agg["runs"] += 1
            if "_harness" in rec:
                case = payload.get("case")
                v = self._classify_harness(rec, payload)
                if v and v.get("ignore"):
                    agg["outcomes"]["SKIPPED:" + v.get("reason", "not_this_property")] += 1  # neither a pass nor a failure of this property
                elif v:
                    pending_harness.append((tag, payload, rec, v))
                    agg["outcomes"]["BUDGET_CANDIDATE"] += 1
                else:
                    agg["outcomes"]["HARNESS_" + rec["_harness"].upper()] += 1
                    agg["harness"].append({"run": tag, "kind": rec["_harness"], "signal": rec.get("signal"), "status": rec.get("status"),
                                           "payload": str(payload)[:300],
                                           "info": (rec.get("error") or rec.get("stack") or "")[-1500:],
                                           "tb": rec.get("tb", "")[-1500:]})
                return
            agg["evaluations"] += rec.get("evals", 1)
            agg["steps"] += rec.get("steps", 0)
            agg["faults"].update(rec.get("faults", {}))
            agg["probes"].update(rec.get("probes", {}))
            for s in rec.get("states", []):
                agg["states"].add(s)
            for s in rec.get("nontrivial", []):
                agg["nontrivial"].add(s)
            if rec.get("digest") is not None:
                agg["digests"][tag] = rec["digest"]
            if rec.get("violations"):
                agg["outcomes"]["VIOLATING_RUN"] += 1
                for v in rec["violations"]:
                    key = (v["class"], v["sig"])
                    viol_count[key] += 1
                    if key not in viol:
                        viol[key] = (tag, rec["case"], v)
            else:
                agg["outcomes"]["OK"] += 1
            if payload.get("want_case") and len(agg["samples"]) < 4 and "case" in rec:
                agg["samples"].append({"run": tag, "case": _clip(rec["case"]), "digest": rec.get("digest"),
                                       "summary": rec.get("summary")})

        # 0. regression replays of fixed defects first
        regdir = os.path.join(K.VERIF, "regress", mod.ID)
        reg = []
        if os.path.isdir(regdir):
            for fn in sorted(os.listdir(regdir)):
                if fn.endswith(".json"):
                    doc = json.load(open(os.path.join(regdir, fn)))
                    reg.append(("regress:" + fn, {"case": doc["case"], "want_case": False}))
        for tag, payload, rec in K.run_forked(reg, self.child, workers=self.workers, run_timeout=self.run_timeout):
            consume(tag, payload, rec)
        n_reg = len(reg)

        # 1. seeded runs until the budget is used
        deadline = t_start + self.budget
        max_runs = getattr(mod, "MAX_RUNS", {}).get(self.tier)

        def jobs():
            i = 0
            while max_runs is None or i < max_runs:
                yield (i, {"seed": K.run_seed(self.seed, mod.ENGINE + ":" + mod.ID, i), "want_case": i < 4})
                i += 1

        for tag, payload, rec in K.run_forked(jobs(), self.child, workers=self.workers,
                                              run_timeout=self.run_timeout, deadline=deadline):
            consume(tag, payload, rec)

        # 2. determinism self-test on the first seeds (second execution, compare event-log digests)
        npairs = min(getattr(mod, "SELFTEST_PAIRS", {}).get(self.tier, 8), agg["runs"] - n_reg)
        det = {"pairs": 0, "mismatches": 0, "mismatch_runs": []}
        again = [(i, {"seed": K.run_seed(self.seed, mod.ENGINE + ":" + mod.ID, i)}) for i in range(max(0, npairs))
                 if i in agg["digests"]]
        for tag, payload, rec in K.run_forked(again, self.child, workers=self.workers, run_timeout=self.run_timeout):
            if "_harness" in rec or rec.get("digest") is None:
                continue
            det["pairs"] += 1
            if rec["digest"] != agg["digests"][tag]:
                det["mismatches"] += 1
                det["mismatch_runs"].append(tag)

        # 3. budget-oracle candidates (killed / crashed children) must reproduce twice, alone
        n_confirmations = 0
        for tag, payload, rec, v in pending_harness:
            key = (v["class"], v["sig"])
            if key in viol:
                viol_count[key] += 1
                continue
            case = payload.get("case") or mod.gen_case(random.Random(payload["seed"]), self.tier)
            if self.known.match(mod.ID, key[0], key[1]) is not None:
                viol[key] = (tag, case, v)  # a listed finding: reported as KNOWN-FINDING below, no need to re-confirm it twice
                viol_count[key] += 1
                continue
            if n_confirmations >= 6:
                agg["unconfirmed"] += 1  # each confirmation costs up to two wall budgets: a bounded number per run
                continue
            n_confirmations += 1
            ok = 0
            for _ in range(2):
                r = self.exec_cases([case], workers=1)[0]
                if r is not None and "_harness" in r:
                    v2 = self._classify_harness(r, {"case": case})
                    # (a loop that spans several functions is caught in a different innermost frame every time: for the
                    #  budget classes a repeated kill of the same case confirms, whatever frame the dump shows)
                    if v2 and ((v2["class"], v2["sig"]) == key or (v2["class"] in getattr(mod, "BUDGET_CLASSES", ()) and key[0] in getattr(mod, "BUDGET_CLASSES", ()))):
                        ok += 1
                elif r is not None and self.reproduces(r, key):
                    ok += 1
            if ok == 2:
                viol[key] = (tag, case, v)
                viol_count[key] += 1
            else:
                agg["unconfirmed"] += 1
                print(f"note: budget candidate of run {tag} not confirmed ({ok}/2 repeats): {key}", file=sys.stderr)

        # 4. violations: known finding, or minimise + fresh replay
        n_viol = 0
        reported = []
        attempts = 0
        known_printed = set()
        for key, (tag, case, v) in sorted(viol.items(), key=lambda kv: str(kv[0])):
            kf = self.known.match(mod.ID, key[0], key[1])
            if kf is not None:
                agg["known_hit"][kf["id"]] += viol_count[key]
                if kf["id"] not in known_printed:
                    known_printed.add(kf["id"])
                    print(f"KNOWN-FINDING: property={mod.ID} {kf['id']}: {kf['what']} [class={key[0]} sig={key[1]}]")
                continue
            max_report = int(os.environ.get("VERIF_MAX_REPORT", "6"))
            if len(reported) >= max_report:
                n_viol += 1
                continue
            if attempts >= 2 * max_report:
                # minimise + fresh replay is spent on a bounded number of alarms; the rest are counted, not chased
                agg["harness"].append({"run": tag, "kind": "alarm_not_processed", "info": f"{key}: report attempts exhausted"})
                continue
            attempts += 1
            budget_class = key[0] in getattr(mod, "BUDGET_CLASSES", ())
            if budget_class:
                small, info = case, {"execs": 0, "note": "budget oracle: not minimised"}
                if getattr(mod, "shrink", None) and os.environ.get("VERIF_SHRINK_BUDGET_CLASSES") == "1":
                    small, info = self.minimise(case, key, max_execs=40, max_s=300)
            else:
                small, info = self.minimise(case, key)
            path = self.write_replay(small, v, info, tag)
            if self.confirm_fresh(path, key):
                n_viol += 1
                reported.append(path)
                print(f"VIOLATION property={mod.ID} replay={path} class={key[0]} sig={key[1]} runs={viol_count[key]}")
                if v.get("detail"):
                    print("  detail: " + str(v["detail"])[:600])
            else:
                # retry unminimised once (the shrinker may have walked into a flaky corner)
                path2 = self.write_replay(case, v, {"execs": 0, "note": "unminimised"}, tag)
                if self.confirm_fresh(path2, key):
                    n_viol += 1
                    reported.append(path2)
                    print(f"VIOLATION property={mod.ID} replay={path2} class={key[0]} sig={key[1]} runs={viol_count[key]}")
                elif budget_class:
                    agg["unconfirmed"] += 1
                else:
                    agg["harness"].append({"run": tag, "kind": "nonreproducing_alarm", "info": f"{key} {path}"})
        sys.stdout.flush()

        wall = time.time() - t_start
        self.write_evidence(agg, det, n_viol, wall, n_reg, viol_count)
        for k, n in sorted(agg["probes"].items()):
            pass
        zero = [p for p in getattr(mod, "PROBES", []) if agg["probes"].get(p, 0) == 0]
        if zero:
            print(f"note: reach probes at 0 in this run: {', '.join(zero)}", file=sys.stderr)
        if det["mismatches"]:
            print(f"warning: determinism self-test: {det['mismatches']}/{det['pairs']} digest mismatches (runs {det['mismatch_runs'][:5]})",
                  file=sys.stderr)
        print(f"[{mod.ID}] tier={self.tier} seed={self.seed} runs={agg['runs']} evals={agg['evaluations']} "
              f"distinct_nontrivial={len(agg['nontrivial'])} violations={n_viol} known={sum(agg['known_hit'].values())} "
              f"harness_errors={len(agg['harness'])} wall={wall:.1f}s")
        if n_viol:
            return 1
        real_harness = [h for h in agg["harness"]]
        if real_harness:
            frac = len(real_harness) / max(1, agg["runs"])
            for h in real_harness[:3]:
                print(f"HARNESS_ERROR run={h['run']} kind={h['kind']} {h['info'][-400:]} {h.get('tb','')[-800:]}", file=sys.stderr)
            tol = getattr(mod, "HARNESS_TOLERANCE", 0.0)
            if frac > tol or any(h["kind"] in ("child_exception", "nonreproducing_alarm") for h in real_harness):
                return 2
        if agg["evaluations"] == 0:
            print("HARNESS_ERROR: no run completed", file=sys.stderr)
            return 2
        return 0

    def write_evidence(self, agg, det, n_viol, wall, n_reg, viol_count):
        mod = self.mod
        runs = max(1, agg["runs"])
        cov = {
            "evaluations": int(agg["evaluations"]),
            "distinct_nontrivial": len(agg["nontrivial"]),
            "rule": mod.RULE,
            "samples": agg["samples"] or [{"note": "no sample recorded"}],
            "states": len(agg["states"]),
            "simulated_runs": agg["runs"],
            "regress_replays": n_reg,
            "runs_per_hour": int(agg["runs"] / max(wall, 1e-6) * 3600),
            "evaluations_per_hour": int(agg["evaluations"] / max(wall, 1e-6) * 3600),
            "seeds": {"VERIF_SEED": self.seed, "run_seed_rule": "sha256('s2t-sim'|seed|engine:prop|i)[:8]", "count": agg["runs"] - n_reg},
            "logical_steps": int(agg["steps"]),
            "simulated_time_note": "the library has no timers; simulated time is the count of seam events (logical steps)",
            "faults_fired": dict(sorted(agg["faults"].items())),
            "probes": dict(sorted(agg["probes"].items())),
            "outcomes": dict(agg["outcomes"]),
            "components": mod.COMPONENTS,
            "determinism_selftest": det,
            "known_findings_hit": dict(agg["known_hit"]),
            "violation_signatures_seen": {f"{k[0]}::{k[1]}": n for k, n in list(viol_count.items())[:40]},
            "unconfirmed": agg["unconfirmed"],
            "harness_errors": agg["harness"][:10],
            "workers": self.workers,
            "budget_s": self.budget,
            "exhaustive": False,
        }
        extra = getattr(mod, "evidence_extra", None)
        if extra:
            cov.update(extra(agg))
        cov["repo"] = _repo_provenance()
        ev = {
            "property_id": mod.ID, "tier": self.tier, "seed": self.seed, "level": mod.LEVEL,
            "coverage": cov, "assumptions": mod.ASSUMPTIONS, "wall_s": round(wall, 2), "violations": n_viol,
        }
        # evidence/ describes /repo itself; a run pointed elsewhere (VERIF_REPO = scratch copy with a seeded change) keeps its report apart
        evdir = os.path.join(K.VERIF, "evidence") if os.path.realpath(K.REPO) == "/repo" else os.path.join(K.VERIF, "work", "evidence-other-repo")
        os.makedirs(evdir, exist_ok=True)
        tmp = os.path.join(evdir, f".{mod.ID}.tmp")
        with open(tmp, "w") as f:
            json.dump(ev, f, indent=1, default=K._json_default)
        os.replace(tmp, os.path.join(evdir, f"{mod.ID}.json"))


def _clip(o, n=1200):
    s = K.jdump(o)
    if len(s) <= n:
        return o
    return {"clipped_json": s[:n] + "...", "full_len": len(s)}


def _repo_provenance() -> dict:
    out = {"path": K.REPO}
    try:
        out["head"] = subprocess.run(["git", "-C", K.REPO, "rev-parse", "--short", "HEAD"], capture_output=True, text=True, timeout=20).stdout.strip()
        st = subprocess.run(["git", "-C", K.REPO, "status", "--porcelain", "--untracked-files=no"], capture_output=True, text=True, timeout=20).stdout
        out["working_tree_modified_files"] = [l[3:] for l in st.splitlines()][:20]
    except Exception as e:  # noqa
        out["note"] = f"git not available: {e!r}"
    return out


def do_replay(mod, path, workers) -> int:
    doc = json.load(open(path))
    r = Runner(mod, "quick", doc.get("seed", 1), 0, workers)
    exp = doc.get("expect")
    tries = int(getattr(mod, "REPLAY_TRIES", 1))
    junk = []
    for attempt in range(tries):
        # properties whose violations depend on object-address reuse may need more than one process image to show again
        rec = r.exec_cases([doc["case"]], workers=1)[0]
        if rec is None or "_harness" in rec or rec.get("violations"):
            break
        junk.append(bytearray(4096 * (attempt + 1) * 37))
    found = []
    if rec is not None and "_harness" in rec:
        v = r._classify_harness(rec, {"case": doc["case"]})
        if v:
            found.append(v)
        else:
            print(f"HARNESS_ERROR replay child: {rec}", file=sys.stderr)
            return 2
    elif rec is not None:
        found = rec.get("violations", [])
    if not found:
        print(f"[{mod.ID}] replay {path}: no violation (digest {rec.get('digest') if rec else None})")
        return 0
    for v in found:
        mark = ""
        if exp and (v["class"], v["sig"]) == (exp["class"], exp["sig"]):
            mark = " (as recorded)"
        print(f"VIOLATION property={mod.ID} replay={path} class={v['class']} sig={v['sig']}{mark}")
        if v.get("detail"):
            print("  detail: " + str(v["detail"])[:1500])
    return 1


def main(argv=None) -> int:
    ap = argparse.ArgumentParser(prog="check")
    ap.add_argument("prop")
    ap.add_argument("--tier", default=os.environ.get("VERIF_TIER", "quick"), choices=["quick", "thorough"])
    ap.add_argument("--seed", type=int, default=int(os.environ.get("VERIF_SEED", "1") or 1))
    ap.add_argument("--budget", type=float, default=float(os.environ["VERIF_BUDGET_S"]) if os.environ.get("VERIF_BUDGET_S") else None)
    ap.add_argument("--replay")
    ap.add_argument("--workers", type=int, default=K.NPROC)
    ap.add_argument("--case-seed", type=int, help="print the generated case for run index N and exit")
    args = ap.parse_args(argv)

    if args.prop == "setup":
        K.reexec_pinned([MAIN] + (argv or sys.argv[1:]))
        import sharepoint2text  # noqa
        K.assert_repo_tree()
        for p in CLAIMED:
            try:
                load(p)
            except ModuleNotFoundError:
                pass
        print("setup ok: python", sys.version.split()[0], "repo", K.REPO)
        return 0
    if args.prop == "selftest":
        K.reexec_pinned([MAIN] + (argv or sys.argv[1:]))
        from . import selftest
        return selftest.main(args)

    K.reexec_pinned([MAIN] + (argv or sys.argv[1:]))
    prop = args.prop.upper()
    mod = load(prop)
    K.assert_repo_tree()
    K.quiet_process()
    try:
        mod.warm()
        if args.replay:
            return do_replay(mod, args.replay, args.workers)
        if args.case_seed is not None:
            s = K.run_seed(args.seed, mod.ENGINE + ":" + mod.ID, args.case_seed)
            print(json.dumps(mod.gen_case(random.Random(s), args.tier), indent=1, default=K._json_default)[:20000])
            return 0
        return Runner(mod, args.tier, args.seed, args.budget, args.workers).run()
    finally:
        K.cleanup_sandbox()
