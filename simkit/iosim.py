"""iosim: stored documents behind a faulty block device / container member reads, through every entry point (DESIGN.md 2.4)."""
from __future__ import annotations

import contextlib
import email.message
import faulthandler
import io
import os
import random
import resource
import signal
import sys
import tarfile
import time
import zipfile

from . import blockdev, corpus
from . import kernel as K

ENTRIES = ["direct", "read_file", "cli", "archive_zip", "archive_tar", "attachment"]
_docs: dict[str, bytes] = {}
_names: list[str] = []
_by_ext: dict[str, list[str]] = {}
_base_cpu: dict[str, float] = {}
_ole_obj_streams: dict[str, list[int]] = {}
_ole_propset_streams: dict[str, list[int]] = {}
EXT_FAMILIES = ["docx", "docm", "pptx", "pptm", "xlsx", "xlsm", "doc", "ppt", "xls", "rtf", "odt", "odp", "ods", "odg", "odf", "msg", "mbox", "eml",
                "csv", "json", "txt", "tsv", "md", "pdf", "html", "epub", "mhtml", "zip", "tar", "tgz", "tbz2", "txz", "7z"]
ALIASES = {"html": ["htm"], "mhtml": ["mht"], "doc": ["dot"], "docx": ["dotx"], "docm": ["dotm"], "xls": ["xlt"], "xlsx": ["xltx"], "xlsm": ["xltm"],
           "ppt": ["pot", "pps"], "pptx": ["potx", "ppsx"], "pptm": ["potm", "ppsm"], "odt": ["ott"], "ods": ["ots"], "odp": ["otp"],
           "tgz": ["tar.gz", "gz"], "tbz2": ["tar.bz2", "bz2"], "txz": ["tar.xz", "xz"]}


def ext_of(name: str) -> str:
    b = os.path.basename(name).lower()
    for c in (".tar.gz", ".tar.bz2", ".tar.xz"):
        if b.endswith(c):
            return c[1:]
    return b.rsplit(".", 1)[-1] if "." in b else ""


def warm(measure_cpu: bool = True):
    global _docs, _names, _by_ext
    corpus.warm_all(extract=True)
    _docs = corpus.corpus()
    _names = sorted(_docs)
    _by_ext.clear()
    for n in _names:
        _by_ext.setdefault(ext_of(n), []).append(n)
    import sharepoint2text.cli  # noqa
    _ole_obj_streams.clear()
    _ole_propset_streams.clear()
    for n in _names:
        if _docs[n][:8] == b"\xd0\xcf\x11\xe0\xa1\xb1\x1a\xe1":
            _ole_obj_streams[n] = _ole_streams_with_objects(n)
    if measure_cpu:
        for n in _names:
            t0 = time.process_time()
            with K.cpu_guard(60):
                try:
                    for r in corpus.extractor_for(n)(io.BytesIO(_docs[n]), None):
                        r.get_full_text()
                except Exception:
                    pass
            _base_cpu[n] = min(time.process_time() - t0, 1.0)


def _ole_streams_with_objects(name) -> list[int]:
    """ordinals k of the openstream() calls (fault-free extraction) whose stream holds embedded objects: where a stream fault meets in-flight state"""
    import olefile
    real = olefile.OleFileIO.openstream
    hits, n = [], [0]

    def openstream(self, filename):
        st = real(self, filename)
        n[0] += 1
        try:
            data = st.read()
            st.seek(0)
            if blockdev.object_offsets(data):
                hits.append(n[0])
            if data[:4] == b"\xfe\xff\x00\x00":
                _ole_propset_streams.setdefault(name, []).append(n[0])
        except Exception:
            pass
        return st

    olefile.OleFileIO.openstream = openstream
    try:
        with K.cpu_guard(60):
            try:
                for r in corpus.extractor_for(name)(io.BytesIO(_docs[name]), None):
                    pass
            except Exception:
                pass
    finally:
        olefile.OleFileIO.openstream = real
    return hits


def docs():
    return _docs


def names():
    return _names


def base_cpu(name):
    return _base_cpu.get(name, 0.3)


# ------------------------------------------------------------------------------------------------ generation
def gen_case(rng: random.Random, tier: str, *, fault_free_p=0.1, s2_bias=0.5, entries=None, max_size=None) -> dict:
    exts = sorted(_by_ext)
    ext = rng.choice(exts)  # floor share per format: pick the format first, then a document of it
    name = rng.choice(_by_ext[ext])
    if max_size and len(_docs[name]) > max_size:
        small = [n for n in _by_ext[ext] if len(_docs[n]) <= max_size]
        name = rng.choice(small) if small else name
    data = _docs[name]
    ops = [] if rng.random() < fault_free_p else blockdev.gen_ops(rng, data, corpus.splice_sources(), s2_bias=s2_bias)
    entry = rng.choice(entries or ENTRIES)
    r = rng.random()
    own = ext
    if r < 0.70:
        route = own
    elif r < 0.80:
        fam = next((k for k, v in ALIASES.items() if own == k or own in v), None)
        route = rng.choice(ALIASES[fam] + [fam]) if fam else own
    else:
        route = rng.choice(EXT_FAMILIES)  # misdirected file: content of format A under the name of format B
    ole = None
    if data[:8] == b"\xd0\xcf\x11\xe0\xa1\xb1\x1a\xe1" and ops and rng.random() < 0.4:
        ed = rng.choice([["trunc", rng.randrange(1 << 30)], ["flip", [[rng.randrange(1 << 30), rng.randrange(8)] for _ in range(rng.choice([1, 3, 16]))]],
                         ["u16", rng.randrange(1 << 30), rng.choice(blockdev.BIG)], ["u32", rng.randrange(1 << 30), rng.choice(blockdev.BIG)], ["empty"],
                         ["zerotail", rng.randrange(1 << 30), rng.choice([-1, 2, 4, 6, 20, 100, 600])]])
        ole = [rng.randrange(1, 7), ed]
        if rng.random() < 0.25:
            # property-set streams (SummaryInformation / DocumentSummaryInformation): one property gets another variant type;
            # date and blob types are favoured (they turn a number or a string into an object of another kind)
            ks = _ole_propset_streams.get(name) or list(range(1, 7))
            vt = rng.choice([64, 64, 65, 71, 7]) if rng.random() < 0.5 else rng.choice(blockdev.VARIANT_TYPES)
            ole = [rng.choice(ks), ["vt_retype", rng.randrange(1 << 16), vt]]
        if _ole_obj_streams.get(name) and rng.random() < 0.6:
            # aim at a stream that carries embedded objects (pictures), with the fault that leaves an object half there
            ole = [rng.choice(_ole_obj_streams[name]), rng.choice([ed, ["zerotail", rng.randrange(1 << 30), rng.choice([2, 4, 6, 20, 100, 600])],
                                                                    ["trunc", rng.randrange(1 << 30)],
                                                                    ["dupobj", rng.randrange(1 << 20), rng.choice([25, 25, 41, 8])],
                                                                    ["dupobj", rng.randrange(1 << 20), rng.choice([25, 41])]])]
        ops = []  # the container shell stays valid: only the stream read is faulted
    case_style = rng.choice(["lower", "lower", "upper", "mixed"])
    route_cs = {"lower": route, "upper": route.upper(), "mixed": "".join(c.upper() if i % 2 else c for i, c in enumerate(route))}[case_style]
    return {"doc": name, "ops": ops, "ole": ole, "entry": entry, "route": route_cs, "pos": rng.choice([0, 0, 0, 1, 7, 512, 10 ** 9]),
            "stem": rng.choice(["f", "ünï cödé", "a.b", "UP", "x y"]), "flags": rng.choice([[], [], ["--json"], ["--json-unit"], ["--json", "--binary"],
                                                                                                  ["--json-unit", "--binary"]]),
            "path_kind": rng.choice(["none", "relative", "absolute_missing", "unicode", "member_form", "noext", "trailing_dot"])}


def materialise(case) -> bytes:
    return blockdev.apply_ops(_docs[case["doc"]], case["ops"], corpus.splice_sources()) if case["ops"] else _docs[case["doc"]]


def path_arg(case, filename: str):
    k = case.get("path_kind", "none")
    if k == "none":
        return None
    if k == "relative":
        return "some dir/" + filename
    if k == "absolute_missing":
        return "/nonexistent-s2tsim/" + filename
    if k == "unicode":
        return "Ünï/日本/" + filename
    if k == "member_form":
        return "archive.zip!/dir/" + filename
    if k == "noext":
        return "dir/" + filename.rsplit(".", 1)[0]
    if k == "trailing_dot":
        return "dir/" + filename + "."
    return None


# ------------------------------------------------------------------------------------------------ resource budgets
def arm_budgets(cpu_s: float | None, as_bytes: int | None, stackfile_hint=None):
    if cpu_s:
        soft = int(cpu_s) + 1
        resource.setrlimit(resource.RLIMIT_CPU, (soft, soft + 3))
        try:
            faulthandler.register(signal.SIGXCPU, file=K.CHILD_STACK_FILE or sys.stderr, all_threads=True, chain=False)
        except Exception:
            pass
    if as_bytes:
        cur = _vm_size()
        hard = resource.getrlimit(resource.RLIMIT_AS)[1]
        resource.setrlimit(resource.RLIMIT_AS, (cur + as_bytes, hard))  # soft only: the harness lifts it again after the measured section


def disarm_as():
    try:
        hard = resource.getrlimit(resource.RLIMIT_AS)[1]
        resource.setrlimit(resource.RLIMIT_AS, (hard, hard))
    except Exception:
        pass


def _vm_size() -> int:
    try:
        with open("/proc/self/statm") as f:
            return int(f.read().split()[0]) * resource.getpagesize()
    except Exception:
        return 0


def peak_rss() -> int:
    return resource.getrusage(resource.RUSAGE_SELF).ru_maxrss * 1024


# ------------------------------------------------------------------------------------------------ execution
class Outcome:
    def __init__(self):
        self.results = []
        self.exc = None
        self.stdout = None
        self.stderr = None
        self.rc = None
        self.cpu = 0.0
        self.where = ""
        self.outer = []  # e-mail results when entry == attachment


class _FaultedOleStream(io.BytesIO):
    def __init__(self, data: bytes):
        super().__init__(data)
        self.size = len(data)


def _install_ole_fault(spec, fired):
    """S2 for OLE2 containers: the container shell stays valid, the bytes returned by the k-th openstream() are altered"""
    import olefile
    real = olefile.OleFileIO.openstream
    n = [0]

    def openstream(self, filename):
        st = real(self, filename)
        n[0] += 1
        if n[0] == spec[0]:
            try:
                data = st.read()
            except Exception:
                return real(self, filename)
            fired.append(filename if isinstance(filename, str) else "/".join(filename))
            return _FaultedOleStream(blockdev.edit_member(data, spec[1]))
        return st

    olefile.OleFileIO.openstream = openstream
    return lambda: setattr(olefile.OleFileIO, "openstream", real)


def execute(case: dict, sbx_dir: str) -> Outcome:
    import sharepoint2text
    from sharepoint2text.parsing.router import get_extractor
    out = Outcome()
    out.ole_fired = []
    undo = _install_ole_fault(case["ole"], out.ole_fired) if case.get("ole") else None
    try:
        return _execute(case, sbx_dir, out)
    finally:
        if undo:
            undo()


def _execute(case: dict, sbx_dir: str, out: "Outcome") -> "Outcome":
    import sharepoint2text
    from sharepoint2text.parsing.router import get_extractor
    data = materialise(case)
    fname = f"{case['stem']}.{case['route']}"
    entry = case["entry"]
    t0 = time.process_time()
    try:
        if entry == "direct":
            bio = io.BytesIO(data)
            bio.seek(min(case.get("pos", 0), len(data)))
            out.where = "extractor"
            ex = get_extractor(fname)
            for r in ex(bio, path_arg(case, fname)):
                out.results.append(r)
        elif entry == "read_file":
            p = os.path.join(sbx_dir, fname)
            with open(p, "wb") as f:
                f.write(data)
            out.where = "read_file"
            for r in sharepoint2text.read_file(p):
                out.results.append(r)
        elif entry == "cli":
            p = os.path.join(sbx_dir, fname)
            special = case.get("special")
            if special == "missing":
                pass  # the path does not exist
            elif special == "directory":
                os.makedirs(p, exist_ok=True)  # a directory named like a document
            elif special == "empty":
                open(p, "wb").close()
            else:
                with open(p, "wb") as f:
                    f.write(data)
            from sharepoint2text import cli
            so, se = io.StringIO(), io.StringIO()
            out.where = "cli"
            with contextlib.redirect_stdout(so), contextlib.redirect_stderr(se), K.fresh_process_diagnostics():
                out.rc = cli.main([p] + list(case.get("flags") or []))
            out.stdout, out.stderr = so.getvalue(), se.getvalue()
        elif entry in ("archive_zip", "archive_tar"):
            member = "dir/" + fname
            bio = io.BytesIO()
            # what follows the faulted member: a text file, or (history inside one call) the undamaged document under the same routing name
            after = ("after." + fname.rsplit(".", 1)[-1], _docs[case["doc"]]) if case.get("after_same") else ("after.txt", b"after\n")
            if entry == "archive_zip":
                with zipfile.ZipFile(bio, "w", zipfile.ZIP_STORED) as z:
                    z.writestr("before.txt", b"before\n")
                    z.writestr(member, data)
                    z.writestr(after[0], after[1])
                an = "A.zip"
            else:
                with tarfile.open(fileobj=bio, mode="w") as t:
                    for nm, d in (("before.txt", b"before\n"), (member, data), after):
                        ti = tarfile.TarInfo(nm)
                        ti.size = len(d)
                        t.addfile(ti, io.BytesIO(d))
                an = "A.tar"
            out.where = "read_archive"
            for r in get_extractor(an)(io.BytesIO(bio.getvalue()), an):
                out.results.append(r)
        elif entry == "attachment":
            m = email.message.EmailMessage()
            m["From"], m["To"], m["Subject"] = "a@example.org", "b@example.org", "carrier"
            m["Date"] = "Tue, 02 Jan 2024 03:04:05 +0000"
            m["Message-ID"] = "<carrier@example.org>"
            m.set_content("carrier body\n")
            import mimetypes
            mt = mimetypes.guess_type(fname)[0] or "application/octet-stream"
            maintype, _, subtype = mt.partition("/")
            m.add_attachment(data, maintype=maintype, subtype=subtype or "octet-stream", filename=fname)
            out.where = "eml"
            mails = list(get_extractor("carrier.eml")(io.BytesIO(m.as_bytes()), "carrier.eml"))
            out.outer = mails
            out.where = "iterate_supported_attachments"
            for mail in mails:
                for r in mail.iterate_supported_attachments():
                    out.results.append(r)
    except BaseException as e:  # noqa  (classified by the property modules)
        out.exc = e
    out.cpu = time.process_time() - t0
    return out


def innermost_frame(exc: BaseException, prefer=("sharepoint2text",)) -> str:
    """innermost traceback frame inside the package (else innermost overall) as file:function"""
    tb = exc.__traceback__
    best = last = None
    while tb is not None:
        fn = tb.tb_frame.f_code.co_filename
        item = f"{os.path.basename(fn)}:{tb.tb_frame.f_code.co_name}"
        last = item
        if any(p in fn for p in prefer) and "/tests/" not in fn:
            best = item
        tb = tb.tb_next
    return best or last or "?"


def stack_signature(stack_text: str) -> str:
    """signature of a faulthandler dump: innermost frames of the first (current) thread"""
    frames = []
    for line in stack_text.splitlines():
        line = line.strip()
        if line.startswith("File "):
            try:
                path = line.split('"')[1]
                func = line.rsplit(" in ", 1)[1]
                frames.append(f"{os.path.basename(path)}:{func}")
            except Exception:
                pass
        elif frames and (line.startswith("Thread ") or line.startswith("Current thread")):
            if len(frames) > 0 and "simkit" not in frames[0]:
                break
    frames = [f for f in frames if not f.startswith(("kernel.py", "driver.py"))]
    return ">".join(frames[:2]) if frames else "unknown"
