"""Canonical, order-preserving JSON form and digest of results (hides no field; only makes values writable)."""
from __future__ import annotations

import datetime
import hashlib
import io
import json


def canon(o):
    if isinstance(o, dict):
        return {str(k): canon(v) for k, v in o.items()}
    if isinstance(o, (list, tuple)):
        return [canon(v) for v in o]
    if isinstance(o, (set, frozenset)):
        return {"__set__": sorted((canon(v) for v in o), key=lambda x: json.dumps(x, sort_keys=True, default=str))}
    if isinstance(o, (bytes, bytearray)):
        return {"__bytes_sha256__": hashlib.sha256(bytes(o)).hexdigest(), "len": len(o)}
    if isinstance(o, io.BytesIO):
        b = o.getvalue()
        return {"__bytesio_sha256__": hashlib.sha256(b).hexdigest(), "len": len(b)}
    if isinstance(o, datetime.datetime):
        return {"__datetime__": o.isoformat()}
    if isinstance(o, datetime.date):
        return {"__date__": o.isoformat()}
    if isinstance(o, datetime.time):
        return {"__time__": o.isoformat()}
    if isinstance(o, datetime.timedelta):
        return {"__timedelta_s__": o.total_seconds()}
    if isinstance(o, float):
        return o if o == o and o not in (float("inf"), float("-inf")) else {"__float__": repr(o)}
    if o is None or isinstance(o, (str, int, bool)):
        if isinstance(o, str) and len(o) > 200 and _looks_b64(o):
            return {"__b64_sha256__": hashlib.sha256(o.encode("utf-8", "backslashreplace")).hexdigest(), "len": len(o)}
        return o
    return {"__repr__": repr(o), "__type__": type(o).__name__}


def _looks_b64(s: str) -> bool:
    head = s[:120]
    return " " not in head and "\n" not in head and all(c.isalnum() or c in "+/=" for c in head)


def dumps(o) -> str:
    return json.dumps(canon(o), sort_keys=True, ensure_ascii=True)


def digest(o) -> str:
    return hashlib.sha256(dumps(o).encode()).hexdigest()[:24]


def first_diff(a, b, path="$"):
    """first differing JSON path between two canonical trees (None when equal)"""
    if type(a) is not type(b):
        return path, a, b
    if isinstance(a, dict):
        for k in sorted(set(a) | set(b)):
            if k not in a or k not in b:
                return f"{path}.{k}", a.get(k, "<absent>"), b.get(k, "<absent>")
            d = first_diff(a[k], b[k], f"{path}.{k}")
            if d:
                return d
        return None
    if isinstance(a, list):
        if len(a) != len(b):
            for i in range(min(len(a), len(b))):
                d = first_diff(a[i], b[i], f"{path}[{i}]")
                if d:
                    return d
            return f"{path}.length", len(a), len(b)
        for i in range(len(a)):
            d = first_diff(a[i], b[i], f"{path}[{i}]")
            if d:
                return d
        return None
    if a != b:
        return path, a, b
    return None


def generic_path(p: str) -> str:
    """$.images[3].color_space -> $.images[*].color_space (signature form)"""
    import re
    return re.sub(r"\[\d+\]", "[*]", p)
