"""C09 -- archive processing is confined: no host file is read or written (engine fssim, DESIGN.md 2.3 / 3.C09)."""
from __future__ import annotations

import copy
import gc
import io
import os
import random
import shutil
import tempfile

from .. import archgen, canon, corpus, fsseam
from .. import kernel as K

ID = "C09"
ENGINE = "fssim"
LEVEL = "fault_enumeration"
BUDGET = {"quick": 45, "thorough": 1200}
RUN_TIMEOUT = 150
SELFTEST_PAIRS = {"quick": 10, "thorough": 30}
PROBES = ["abs_name", "dotdot_name", "backslash_or_drive_name", "very_long_name", "name_of_existing_host_file", "tar_link_member", "tar_device_or_fifo",
          "7z_ghost_entry", "7z_ghost_pointing_at_canary", "oversize_member", "oversize_twin_of_small_member", "hidden_or_macos_member", "nested_archive_member", "closed_while_tempdir_existed",
          "throw_while_tempdir_existed", "dropped_while_tempdir_existed", "fs_fault_write", "fs_fault_read", "fs_fault_makedirs", "two_archives_alternating",
          "archive_raised_family_error", "history_of_archives", "corrupt_archive"]
RULE = ("one run = a history of 1-3 archives (zipfile / tarfile / own 7z writer) over a hostile member-name grammar, each processed in a "
        "sandbox with canary files and an audit log: fault-free exhaust, every consumer cut point k (close / throw / drop after k results, "
        "consumer exception), a second sandbox with other canaries/cwd/temp root, then every FS fault position (j-th write open / write / "
        "read-back open / makedirs); distinct non-trivial = (format, hostile-name classes present, consumer mode, cut class, fault kind) "
        "where the archive has >= 1 hostile name or >= 2 members")
ASSUMPTIONS = [
    "the audit hook sees every open/mkdir/remove/rename/link/... issued through Python (PEP 578); I/O inside C extensions that bypasses it is not observed",
    "os.path.exists()/stat probes of outside paths are not flagged (a stat is not a read)",
    "an injected failure of the cleanup call itself (rmtree) is not part of the fault set",
    "member identity in results is established by unique content tokens",
]
COMPONENTS = {"real": ["archive_extractor (ZIP/TAR/7z loops, TemporaryDirectory handling)", "util/sevenzip (reader, _safe_join, extractall)",
                       "tempfile, shutil, zipfile, tarfile, lzma", "member extractors"],
              "stub": ["archive writers", "the host file system around the private temp dir (sandbox with canaries)", "failing FS calls (ENOSPC/EIO/EACCES)",
                       "the consumer of the result generator"]}

_modules = []


def warm():
    global _modules
    corpus.warm_all(extract=True)
    from sharepoint2text.parsing.extractors import archive_extractor as ae
    from sharepoint2text.parsing.extractors.util import sevenzip as sz
    _modules = [ae, sz]
    # warm the 7z path (tempfile internals, shutil) so that a run's audit log holds the library's own events only
    import sharepoint2text
    td = os.path.join(K.sandbox_root(), "warm-tmp")
    os.makedirs(td, exist_ok=True)
    old = tempfile.tempdir
    tempfile.tempdir = td
    try:
        b = archgen.build({"fmt": "7z", "members": [{"name": "w.txt", "doc": "txt", "token": "W"}, {"name": "d/e.txt", "empty": True}]})
        list(sharepoint2text.get_extractor("w.7z")(io.BytesIO(b), "w.7z"))
    finally:
        tempfile.tempdir = old


# ------------------------------------------------------------------------------------------------ generation
def _hostile_name(rng, sbx_root_placeholder="@SBX@") -> tuple[str, list[str]]:
    """returns (name, classes). @SBX@ is replaced by the sandbox root at run time (so names can hit existing host files)."""
    ext = rng.choice([".txt", ".csv", ".md", ".html", ".json"])
    r = rng.random()
    if r < 0.14:
        return rng.choice([f"{sbx_root_placeholder}/host/secret.txt", f"{sbx_root_placeholder}/host/sub/passwd.csv", f"{sbx_root_placeholder}/host/notes.md",
                           f"{sbx_root_placeholder}/host/new{ext}", "/etc/hostname.txt", "/tmp/evil" + ext,
                           f"{sbx_root_placeholder}/host/newdir/sub/x{ext}", f"{sbx_root_placeholder}/fresh dir/y{ext}"]), ["abs"]
    if r < 0.32:
        depth = rng.choice([1, 2, 2, 3, 5, 12, 40])
        tgt = rng.choice(["host/secret.txt", "host/sub/passwd.csv", "secret.txt", "tmp_sibling.txt", "cwd/local.txt", "escape" + ext, "host/new" + ext,
                          "host/made up/dir/z" + ext, "brand_new_dir/w" + ext])
        pre = rng.choice(["", "a/", "a/b/", "./"])
        return pre + "../" * depth + tgt, ["dotdot"]
    if r < 0.38:
        depth = rng.choice([8, 20, 40])
        return "../" * depth + f"{sbx_root_placeholder}/host/secret.txt".lstrip("/"), ["dotdot", "past_root"]
    if r < 0.46:
        return rng.choice(["..\\..\\host\\secret.txt", "C:\\Windows\\win.txt", "C:evil.txt", "\\\\server\\share\\x.txt", "a\\..\\..\\b.txt", "\\abs.txt",
                           "a/..\\../host/secret.txt"]), ["backslash_or_drive"]
    if r < 0.50:
        return rng.choice(["x" * 250 + ext, "d/" * 60 + "deep" + ext, "y" * 3000 + ext, ("z" * 200 + "/") * 18 + "f" + ext]), ["long"]
    if r < 0.56:
        return rng.choice([".hidden" + ext, "d/.hidden" + ext, "__MACOSX/res" + ext, "__MACOSX/._res" + ext, ".DS_Store", "./.hidden" + ext, "./._res" + ext,
                           "./d/.env" + ext, "././.x" + ext,
                           "./__MACOSX/res" + ext, "d/__MACOSX/res" + ext, "./d/__MACOSX/._res" + ext]), ["hidden"]
    if r < 0.61:
        return rng.choice(["inner.zip", "d/inner.tar.gz", "x.7z", "y.tgz", "z.TAR", "n.gz", "d/n.bz2", "n.xz", "n.tar.xz", "N.TBZ2", "inner.zip ", "docs/inner.zip\t", "inner.tgz  ", " lead.7z",
                           "n.taz", "d/n.tz", "N.TAZ", "n.tbz", "n.tb2"]), ["nested"]
    if r < 0.66:
        return rng.choice(["prog.exe", "pic.png", "noext", "blob.bin", "x.unknownext"]), ["unsupported"]
    if r < 0.72:
        return rng.choice(["ünï/cödé" + ext, "sp ace/na me" + ext, "tab\tname" + ext, "nl\nname" + ext, "quote'\"" + ext, "semi;colon" + ext, "日本/語" + ext,
                           "a//b" + ext, "./dot" + ext, "a/./b" + ext, "trail./x" + ext, " lead" + ext, "*glob?" + ext]), ["odd"]
    if r < 0.75:
        return rng.choice(["", "/", ".", "..", "a/..", "d/"]) or "", ["degenerate"]
    return rng.choice(["", "d/", "d/e/"]) + rng.choice(["report", "data", "notes", "summary", "other"]) + ext, ["plain"]


def _gen_archive(rng, tier):
    fmt = rng.choice(["zip", "tar", "tar.gz", "tar.xz", "tar.bz2", "7z", "7z", "7z", "7z"])
    n = rng.choice([0, 1, 2, 3, 3, 4, 5, 6, 8])
    members = []
    for i in range(n):
        name, classes = _hostile_name(rng)
        kind = "file"
        m = {"name": name, "kind": kind, "classes": classes, "token": f"TOK{i}q{rng.randrange(10000)}", "pad": rng.choice([0, 0, 20, 400]),
             "doc": (name.rsplit(".", 1)[-1].lower() if "." in name.rsplit("/", 1)[-1] else "txt")}
        if "nested" in classes:
            m["doc"] = "nested:" + name.rsplit("/", 1)[-1].strip().lower()
        elif m["doc"] not in ("txt", "csv", "md", "html", "json"):
            m["doc"] = "txt"
        r = rng.random()
        if fmt.startswith("tar") and r < 0.22:
            m["kind"] = rng.choice(["symlink", "symlink", "hardlink", "chr", "blk", "fifo"])
            m["link"] = rng.choice(["@SBX@/host/secret.txt", "../../host/secret.txt", "/etc/passwd", "secret.txt", "../host/secret.txt", "@MEMBER@", "@MEMBER@"])
            if m["name"] in ("", "/", ".", ".."):
                m["name"] = "lnk.txt"
            m["classes"] = classes + ["tar_special"]
        elif fmt == "7z" and r < 0.22:
            m["kind"] = "ghost"
            m["classes"] = classes + ["ghost"]
        elif fmt == "7z" and r < 0.30:
            m["empty"] = True  # a regular 7z entry flagged as an empty file (no stream at all): nothing to write, nothing to create outside
            m["classes"] = classes + ["empty_file"]
        elif r < 0.28:
            m["kind"] = "dir"
        elif r < 0.34:
            m["oversize"] = True
            m["classes"] = classes + ["oversize"]
        if "degenerate" in classes and m["kind"] == "file" and fmt == "zip":
            m["kind"] = "dir" if name.endswith("/") else "file"
        members.append(m)
    # a tar link may also point at another member of the same archive -- preferably one that must not produce a result
    inel = [m for m in members if m["kind"] == "file" and any(c in m.get("classes", []) for c in ("hidden", "unsupported", "oversize", "nested"))]
    anyfile = [m for m in members if m["kind"] == "file"]
    for m in members:
        if m.get("link") == "@MEMBER@":
            tgt = rng.choice(inel or anyfile) if (inel or anyfile) else None
            m["link"] = tgt["name"] if tgt else "nowhere.txt"
            if m["name"] in ("", "/", ".", "..") or not m["name"].lower().endswith((".txt", ".csv", ".md", ".html", ".json")):
                m["name"] = "copy_of_member.txt"
    if rng.random() < 0.15 and anyfile:
        # two entries with one name: each is judged (and skipped) on its own size and class, whichever the packer listed first
        src = rng.choice(anyfile)
        twin = dict(src, token=f"TOKd{rng.randrange(10000)}", classes=list(src["classes"]) + ["dupname"])
        if not src.get("oversize"):
            twin["oversize"] = True
            twin["classes"].append("oversize")
        else:
            twin.pop("oversize", None)
            twin["classes"] = [c for c in twin["classes"] if c != "oversize"]
        if rng.random() < 0.5:
            members.append(twin)
        else:
            members.insert(members.index(src), twin)
    spec = {"fmt": fmt, "members": members}
    if fmt.startswith("tar"):
        spec["tar_format"] = rng.choice(["pax", "pax", "gnu", "gnu", "ustar"])  # the three header dialects tarfile (and GNU tar / bsdtar) write
    if fmt == "zip":
        spec["zip_method"] = rng.choice(["stored", "deflated"])
    if fmt == "7z":
        spec["7z"] = {"layout": rng.choice(["solid", "per_file"]), "method": rng.choice(["copy", "lzma", "lzma2"]),
                      "encoded_header": rng.random() < 0.3, "crc": rng.random() < 0.6, "attrs": rng.random() < 0.6}
    corrupt = None
    host_dependent = any("@SBX@" in m["name"] or "@SBX@" in (m.get("link") or "") for m in members)
    if rng.random() < 0.12 and not host_dependent:
        # (archives that embed the sandbox path differ in compressed length from run to run: no positional fault on them)
        corrupt = [rng.choice(["flip", "trunc"]), rng.randrange(1 << 30), rng.randrange(8)]
    return {"spec": spec, "corrupt": corrupt, "path": rng.choice(["A", "dir/B", "/abs/C", "Ünï"]) + archgen.ext_of(fmt)}


def classify_harness(rec, payload):
    """a run that had to be killed (wall cap) says nothing about this property: termination is C01's"""
    if rec.get("_harness") == "timeout" or (rec.get("_harness") == "crash" and rec.get("signal") in (9, 24)):
        return {"ignore": True, "reason": "killed_by_budget_termination_is_C01"}
    return None


def gen_case(rng: random.Random, tier: str) -> dict:
    archives = [_gen_archive(rng, tier) for _ in range(rng.choice([1, 1, 1, 2, 3]))]
    # shared base names across archives of one history (per-process caches keyed by name must not leak between archives)
    if len(archives) > 1 and rng.random() < 0.7:
        base = rng.choice(["summary.txt", "report.csv", "notes.md"])
        roles = ["__MACOSX/" + base, "docs/" + base, "." + base, base, "__MACOSX/d/" + base]
        rng.shuffle(roles)
        for a, role in zip(archives, roles):
            a["spec"]["members"].append({"name": role, "kind": "file", "classes": ["hidden" if role.startswith(("__MACOSX", ".")) else "plain", "shared"],
                                         "token": f"TOKs{rng.randrange(10000)}", "pad": 0, "doc": base.rsplit(".", 1)[-1]})
    return {"archives": archives, "knob": rng.choice([None, None, 300, 1000]), "consumer": "enumerate", "fsfaults": "enumerate",
            "tokens": [f"{rng.randrange(16 ** 8):08x}", f"{rng.randrange(16 ** 8):08x}"], "interleave": rng.random() < 0.4}


# ------------------------------------------------------------------------------------------------ helpers
def _materialise(spec: dict, sbx_root: str, knob) -> dict:
    s = copy.deepcopy(spec)
    for m in s["members"]:
        m["name"] = m["name"].replace("@SBX@", sbx_root)
        if m.get("link"):
            m["link"] = m["link"].replace("@SBX@", sbx_root)
        if m.get("oversize"):
            limit = knob or 10 * 1024 * 1024
            m["pad"] = limit + 1 if limit <= 1000 else 0
            if limit > 1000:
                m.pop("oversize", None)
    return s


def _corrupt(data: bytes, c):
    if not c or not data:
        return data
    if c[0] == "trunc":
        return data[: c[1] % len(data)]
    b = bytearray(data)
    b[c[1] % len(b)] ^= 1 << c[2]
    return bytes(b)


def _outside(path: str, sbx: fsseam.Sandbox, cwd: str) -> bool:
    rp = fsseam.resolve(path, cwd)
    if rp == sbx.tmp or rp.startswith(sbx.tmp + os.sep):
        return False
    return True


def _allowed_import_read(name, path, mode, flags) -> bool:
    if name != "open" or fsseam.is_write_open(mode, flags):
        return False
    return path.endswith((".py", ".pyc", ".so", ".pth")) or "/__pycache__/" in path or path.startswith(("/proc/self", "/dev/urandom"))


class _Run:
    def __init__(self, case):
        self.case = case
        self.viol = []
        self.probes = {}
        self.faults = {}
        self.nontriv = set()
        self.evals = 0
        self.log = K.EventLog()

    def probe(self, n, k=1):
        self.probes[n] = self.probes.get(n, 0) + k


def _consume(gen, mode, k):
    """returns (results, exception, tempdir_existed_at_cut)"""
    out = []
    exc = None
    try:
        if mode == "exhaust":
            for r in gen:
                out.append(r)
        elif mode in ("close", "throw", "drop", "raise_in_body"):
            it = iter(gen)
            try:
                while len(out) < k:
                    out.append(next(it))
            except StopIteration:
                return out, None
            if mode == "close":
                gen.close()
            elif mode == "throw":
                try:
                    gen.throw(RuntimeError("consumer failure"))
                except RuntimeError:
                    pass
                except StopIteration:
                    pass
                except Exception as e:  # the library may translate it; that is its business
                    exc = e
            else:
                del it
                gen = None
    except BaseException as e:  # noqa
        exc = e
    return out, exc


def _digests(results):
    return [canon.digest(r.to_json()) for r in results]


def _tokens_in(results) -> str:
    return "\n".join(canon.dumps(r.to_json()) for r in results)


def _process_one(run: _Run, sbx: fsseam.Sandbox, arc: bytes, apath: str, mode: str, k: int, plan=None, faults: fsseam.FsFaults | None = None):
    """one consumer history on one archive inside the sandbox; returns (results, exc, events)"""
    from sharepoint2text.parsing.router import get_extractor
    if faults is not None:
        faults.reset(plan)
    fds0 = fsseam.nfds()
    ev0 = len(fsseam.AUDIT.events)
    fsseam.AUDIT.enabled = True
    try:
        gen = get_extractor(apath)(io.BytesIO(arc), apath)
        results, exc = _consume(gen, mode, k)
        tmp_at_cut = None
        if mode == "drop":
            fsseam.AUDIT.enabled = False
            tmp_at_cut = sbx.tmp_entries()
            fsseam.AUDIT.enabled = True
            gen = None
            gc.collect()
    finally:
        fsseam.AUDIT.enabled = False
    events = fsseam.AUDIT.events[ev0:]
    run.evals += 1
    return results, exc, events, fds0, tmp_at_cut


def _check_history(run, sbx, fmt, classes, mode, k, results, exc, events, fds0, members_by_token, knob, tagcase, label, corrupt=False):
    from sharepoint2text.parsing.exceptions import ExtractionError
    cwd = sbx.cwd
    sig_cls = "ghost" if "ghost" in classes else "tar_special" if "tar_special" in classes else \
        ("+".join(sorted(c for c in classes if c not in ("plain", "odd", "shared", "hidden", "nested", "unsupported", "oversize", "long", "dupname"))) or "plain")
    ctx = f"{fmt}|{mode}"
    # confinement
    for (name, path, m, fl) in events:
        if _allowed_import_read(name, path, m, fl):
            continue
        if name == "open" and m is None and isinstance(fl, int) and not os.path.isabs(path) and not fsseam.is_write_open(m, fl):
            continue  # os.open(name, O_RDONLY, dir_fd=...) of shutil.rmtree's fd-based walk: the audit event does not carry the dir_fd
        if _outside(path, sbx, cwd):
            what = "write" if (name != "open" or fsseam.is_write_open(m, fl)) and name not in ("os.scandir", "os.listdir") else "read"
            run.viol.append({"class": "fs_access_outside_tempdir", "sig": f"{fmt}|{name}|{what}", "case": tagcase,
                             "detail": f"{label}: {name}({path!r}, {m!r}) resolves to {fsseam.resolve(path, cwd)!r}, outside {sbx.tmp!r}; member classes {sig_cls}"})
            break
    bad = sbx.canaries_intact()
    if bad:
        run.viol.append({"class": "host_file_modified", "sig": f"{fmt}|canary_changed", "case": tagcase, "detail": f"{label}: canaries changed: {bad[:3]}"})
    # no host content in results
    blob = _tokens_in(results)
    if f"CANARY-{sbx.token}" in blob:
        run.viol.append({"class": "host_content_in_results", "sig": f"{fmt}|{sig_cls}", "case": tagcase,
                         "detail": f"{label}: a canary token of the host file system appears in the results (member classes {sig_cls})"})
    # cleanup
    left = sbx.tmp_entries()
    if left:
        run.viol.append({"class": "tempdir_not_removed", "sig": ctx + ("|after_error" if exc is not None else ""), "case": tagcase,
                         "detail": f"{label}: {left[:3]} left in the private temp root after consumer history {mode}@{k} (exc={type(exc).__name__ if exc else None})"})
        for x in left:
            shutil.rmtree(os.path.join(sbx.tmp, x), ignore_errors=True)
    nf = fsseam.nfds()
    if nf > fds0:
        run.viol.append({"class": "fd_leak", "sig": ctx, "case": tagcase, "detail": f"{label}: open fds {fds0} -> {nf}"})
    # failure surface (type only; the rest is C01's business)
    if exc is not None:
        if isinstance(exc, ExtractionError):
            run.probe("archive_raised_family_error")
        elif mode in ("throw", "raise_in_body"):
            pass
        else:
            run.viol.append({"class": "archive_raised_foreign_exception", "sig": f"{fmt}|{type(exc).__name__}", "case": tagcase,
                             "detail": f"{label}: {exc!r}"})
    # skip rules (not for a positionally corrupted archive: a truncated stored ZIP is legitimately read through the directory of a
    # member archive it contains, so "which member produced this result" is no longer defined)
    limit = knob or 10 * 1024 * 1024
    for tok, m in ({} if corrupt else members_by_token).items():
        if tok in blob:
            nm = m["name"]
            base = os.path.basename(nm)
            reason = None
            if base.startswith("."):
                reason = "hidden"
            elif "__MACOSX" in nm.split("/")[:-1]:
                reason = "macos_resource_fork"  # the resource-fork directory, wherever in the member path it sits ('./__MACOSX/x', 'd/__MACOSX/x')
            elif "nested" in m.get("classes", []) or base.strip().lower().endswith((".zip", ".tar", ".tar.gz", ".tgz", ".tar.bz2", ".tbz2", ".tar.xz", ".txz", ".7z", ".gz", ".bz2", ".xz")):
                # the member IS an archive (the generator packed one under an archive name, whatever spelling of the suffix):
                # its token can only reach a result by unpacking it
                reason = "nested_archive"  # (a padded name such as 'inner.zip ' is either an unsupported type or a nested archive: no result either way)
            elif m["kind"] not in ("file",):
                reason = "non_regular_or_ghost_member:" + m["kind"]
            elif len(archgen.member_bytes(m)) > limit:
                reason = "oversize"
            else:
                from sharepoint2text.parsing.router import is_supported_file
                if not is_supported_file(base):
                    reason = "unsupported_type"
            if reason:
                run.viol.append({"class": "skipped_member_produced_result", "sig": f"{fmt}|{reason.split(':')[0]}", "case": tagcase,
                                 "detail": f"{label}: member {nm!r} ({reason}) produced a result"})


def run_case(case: dict) -> dict:
    from sharepoint2text.parsing.extractors import archive_extractor as ae
    run = _Run(case)
    run.log.ev("case", K.h64(K.jdump(case)))
    root = os.path.join(K.sandbox_root(), f"c09-{os.getpid() % 10 ** 7:07d}")  # fixed length: archive bytes embed this path
    sbxA = fsseam.Sandbox(os.path.join(root, "A"), "A", case["tokens"][0])
    sbxB = fsseam.Sandbox(os.path.join(root, "Bee", "deeper"), "B", case["tokens"][1])
    fsseam.AUDIT.install()
    if case.get("knob"):
        ae.configure_archive_extraction(max_memory_size=case["knob"])
    ff = fsseam.FsFaults()
    ff.install(_modules)
    try:
        if len(case["archives"]) > 1:
            run.probe("history_of_archives")
        built = []
        for ai, a in enumerate(case["archives"]):
            for sbx in (sbxA, sbxB):
                spec = _materialise(a["spec"], sbx.root, case.get("knob"))
                try:
                    arc = _corrupt(archgen.build({k: v for k, v in spec.items()}), a.get("corrupt"))
                except Exception as e:
                    arc = None
                built.append((ai, sbx, spec, arc))
        # -------- fault-free exhaust in A (the whole history in order), then consumer enumeration per archive
        for ai, a in enumerate(case["archives"]):
            specA, arcA = [(s, b) for (i, sb, s, b) in built if i == ai and sb is sbxA][0]
            specB, arcB = [(s, b) for (i, sb, s, b) in built if i == ai and sb is sbxB][0]
            if arcA is None or arcB is None:
                continue
            fmt = specA["fmt"]
            classes = sorted({c for m in specA["members"] for c in m.get("classes", [])})
            _probes_for(run, specA, a)
            mbt = {m["token"]: m for m in specA["members"] if m.get("token")}
            label = f"archive {ai} ({fmt})"
            tagcase = dict(case, archives=case["archives"][: ai + 1], consumer=[["exhaust", 0]], fsfaults=None)
            sbxA.enter()
            try:
                res, exc, ev, fds0, _ = _process_one(run, sbxA, arcA, a["path"], "exhaust", 0, faults=ff)
                base_counts = dict(ff.counts)
                _check_history(run, sbxA, fmt, classes, "exhaust", 0, res, exc, ev, fds0, mbt, case.get("knob"), tagcase, label, corrupt=bool(a.get("corrupt")))
                n = len(res)
                dA = (_digests(res), type(exc).__name__ if exc else None)
                run.log.ev("exhaust", ai, fmt, n, dA[1], len(ev))
                hostile = any(c in classes for c in ("abs", "dotdot", "backslash_or_drive", "ghost", "tar_special", "long", "degenerate"))
                # consumer histories
                plan = case["consumer"]
                if plan == "enumerate":
                    plan = [[md, k] for md in ("close", "throw", "drop") for k in range(0, n + 1)]
                    plan = plan if len(plan) <= 18 else random.Random(K.h64(K.jdump(a))).sample(plan, 18)
                for md, k in plan:
                    if md == "exhaust":
                        continue
                    tc = dict(case, archives=case["archives"][: ai + 1], consumer=[[md, k]], fsfaults=None)
                    r2, e2, ev2, f2, tmp_cut = _process_one(run, sbxA, arcA, a["path"], md, k, faults=ff)
                    if fmt == "7z" and k < n + 1 and (ff.counts["write_open"] or ff.counts["makedirs"]):
                        run.probe({"close": "closed_while_tempdir_existed", "throw": "throw_while_tempdir_existed", "drop": "dropped_while_tempdir_existed"}[md])
                    _check_history(run, sbxA, fmt, classes, md, k, r2, e2, ev2, f2, mbt, case.get("knob"), tc, label + f" {md}@{k}", corrupt=bool(a.get("corrupt")))
                    if _digests(r2) != dA[0][: len(r2)]:
                        run.viol.append({"class": "results_depend_on_consumer", "sig": f"{fmt}|{md}", "case": tc,
                                         "detail": f"{label}: first {len(r2)} results under {md}@{k} differ from the exhaustive run"})
                    run.log.ev("consumer", ai, md, k, len(r2), type(e2).__name__ if e2 else None)
                    if hostile or len(specA["members"]) >= 2:
                        run.nontriv.add(f"{fmt}|{'+'.join(c for c in classes if c != 'plain')}|{md}|{'k0' if k == 0 else 'kn' if k >= n else 'kmid'}")
            finally:
                sbxA.leave()
            # -------- second sandbox: other canary contents, cwd, temp root -> identical results
            sbxB.enter()
            try:
                resB, excB, evB, fdsB, _ = _process_one(run, sbxB, arcB, a["path"], "exhaust", 0, faults=ff)
                tcB = dict(tagcase)
                _check_history(run, sbxB, fmt, classes, "exhaust", 0, resB, excB, evB, fdsB, {m["token"]: m for m in specB["members"] if m.get("token")},
                               case.get("knob"), tcB, label + " (sandbox B)", corrupt=bool(a.get("corrupt")))
                dB = (_digests(resB), type(excB).__name__ if excB else None)
                names_same = not any("@SBX@" in m["name"] or "@SBX@" in (m.get("link") or "") for m in a["spec"]["members"])
                if names_same and dA != dB:
                    run.viol.append({"class": "results_depend_on_host", "sig": f"{fmt}|{'ghost' if 'ghost' in classes else 'tar_special' if 'tar_special' in classes else 'names'}", "case": tagcase,
                                     "detail": f"{label}: results differ between two sandboxes (other canary contents, cwd, temp root): {dA[1]}/{len(dA[0])} vs {dB[1]}/{len(dB[0])}"})
            finally:
                sbxB.leave()
            # -------- FS faults (7z touches the disk; for the others the fault-free counts are 0 and nothing is enumerated)
            fplan = case["fsfaults"]
            if fplan == "enumerate":
                fplan = [[kind, j] for kind in ("write_open", "write", "read_open", "makedirs") for j in range(1, base_counts.get(kind, 0) + 1)]
                fplan = fplan if len(fplan) <= 24 else random.Random(K.h64(K.jdump(a), 7)).sample(fplan, 24)
            sbxA.enter()
            try:
                for kind, j in (fplan or []):
                    tc = dict(case, archives=case["archives"][: ai + 1], consumer=[["exhaust", 0]], fsfaults=[[kind, j]])
                    r3, e3, ev3, f3, _ = _process_one(run, sbxA, arcA, a["path"], "exhaust", 0, plan=(kind, j), faults=ff)
                    if not ff.fired:
                        continue
                    run.faults[kind] = run.faults.get(kind, 0) + 1
                    run.probe({"write_open": "fs_fault_write", "write": "fs_fault_write", "read_open": "fs_fault_read", "makedirs": "fs_fault_makedirs"}[kind])
                    _check_history(run, sbxA, fmt, classes, "exhaust", 0, r3, e3, ev3, f3, mbt, case.get("knob"), tc, label + f" fsfault {kind}#{j}", corrupt=bool(a.get("corrupt")))
                    if not set(_digests(r3)) <= set(dA[0]):
                        run.viol.append({"class": "wrong_data_after_fs_fault", "sig": f"{fmt}|{kind}", "case": tc,
                                         "detail": f"{label}: results after {kind}#{j} are not a subset of the fault-free results"})
                    run.log.ev("fsfault", ai, kind, j, len(r3), type(e3).__name__ if e3 else None)
                    run.nontriv.add(f"{fmt}|fsfault|{kind}|{'first' if j == 1 else 'later'}|{'raised' if e3 else 'skipped'}")
            finally:
                sbxA.leave()
        # -------- two archives consumed alternately
        if case.get("interleave") and len(case["archives"]) >= 2:
            run.probe("two_archives_alternating")
            _interleave(run, sbxA, built, case)
        newentries = [e for e in sbxA.listing() | sbxB.listing() if not (e.startswith(("tmp", "host", "cwd")) or e in ("secret.txt", "tmp_sibling.txt"))]
        if newentries:
            run.viol.append({"class": "host_file_created", "sig": "new_entry_in_sandbox", "detail": f"new entries outside the temp root: {newentries[:4]}"})
        for sbx in (sbxA, sbxB):
            extra = [e for e in sbx.listing() if e.startswith(("host/", "cwd/")) and os.path.join(sbx.root, e) not in sbx.canaries and e not in ("host/sub",)]
            if extra:
                run.viol.append({"class": "host_file_created", "sig": "new_entry_next_to_canaries", "detail": f"{extra[:4]}"})
    finally:
        ff.remove()
        sbxA.destroy()
        sbxB.destroy()
        shutil.rmtree(root, ignore_errors=True)
    seen, out = set(), []
    for v in run.viol:
        if (v["class"], v["sig"]) not in seen:
            seen.add((v["class"], v["sig"]))
            out.append(v)
    return {"violations": out, "digest": run.log.digest(), "steps": run.log.n + len(fsseam.AUDIT.events), "evals": run.evals, "faults": run.faults,
            "probes": run.probes, "nontrivial": sorted(run.nontriv), "states": [run.log.digest()[:8]],
            "summary": {"archives": [a["spec"]["fmt"] for a in case["archives"]], "evals": run.evals, "fs_events": len(fsseam.AUDIT.events)}}


def _interleave(run, sbx, built, case):
    from sharepoint2text.parsing.router import get_extractor
    arcs = [(i, s, b) for (i, sb, s, b) in built if sb is sbx and b is not None][:2]
    if len(arcs) < 2:
        return
    sbx.enter()
    fsseam.AUDIT.enabled = True
    try:
        gens = [iter(get_extractor(case["archives"][i]["path"])(io.BytesIO(b), case["archives"][i]["path"])) for i, s, b in arcs]
        alive = [True, True]
        outs = [[], []]
        excs = [None, None]
        while any(alive):
            for gi in (0, 1):
                if alive[gi]:
                    try:
                        outs[gi].append(next(gens[gi]))
                    except StopIteration:
                        alive[gi] = False
                    except Exception as e:
                        alive[gi] = False
                        excs[gi] = e
        run.evals += 2
    finally:
        fsseam.AUDIT.enabled = False
        sbx.leave()
    gens = None
    gc.collect()
    # the same two archives one after the other: interleaving must not change what either of them yields
    seq = []
    sbx.enter()
    try:
        for i, s2, b in arcs:
            try:
                seq.append((_digests(list(get_extractor(case["archives"][i]["path"])(io.BytesIO(b), case["archives"][i]["path"]))), None))
            except Exception as e:
                seq.append(([], type(e).__name__))
    finally:
        sbx.leave()
    for gi in (0, 1):
        got = (_digests(outs[gi]), type(excs[gi]).__name__ if excs[gi] else None)
        if got != seq[gi]:
            run.viol.append({"class": "results_depend_on_interleaving", "sig": f"{arcs[gi][1]['fmt']}",
                             "detail": f"archive {arcs[gi][0]} ({arcs[gi][1]['fmt']}) consumed alternately with another archive yields {len(got[0])} results ({got[1]}), "
                                       f"on its own {len(seq[gi][0])} ({seq[gi][1]})"})
    if sbx.tmp_entries():
        run.viol.append({"class": "tempdir_not_removed", "sig": "interleaved", "detail": f"{sbx.tmp_entries()[:3]} left after two archives were consumed alternately"})
        for x in sbx.tmp_entries():
            shutil.rmtree(os.path.join(sbx.tmp, x), ignore_errors=True)
    blob = _tokens_in(outs[0] + outs[1])
    if f"CANARY-{sbx.token}" in blob:
        run.viol.append({"class": "host_content_in_results", "sig": "interleaved", "detail": "canary token in results of interleaved archives"})


def _probes_for(run, spec, a):
    for m in spec["members"]:
        cl = m.get("classes", [])
        if "abs" in cl:
            run.probe("abs_name")
        if "dotdot" in cl:
            run.probe("dotdot_name")
        if "backslash_or_drive" in cl:
            run.probe("backslash_or_drive_name")
        if "long" in cl:
            run.probe("very_long_name")
        if "/host/" in m["name"] or m["name"].endswith("secret.txt"):
            run.probe("name_of_existing_host_file")
        if m["kind"] in ("symlink", "hardlink"):
            run.probe("tar_link_member")
        if m["kind"] in ("chr", "blk", "fifo"):
            run.probe("tar_device_or_fifo")
        if m["kind"] == "ghost":
            run.probe("7z_ghost_entry")
            if "secret" in m["name"] or "passwd" in m["name"] or "notes.md" in m["name"] or "local.txt" in m["name"]:
                run.probe("7z_ghost_pointing_at_canary")
        if m.get("oversize"):
            run.probe("oversize_member")
            if "dupname" in cl or any(o is not m and o["name"] == m["name"] for o in a["spec"]["members"] if o["kind"] == "file"):
                run.probe("oversize_twin_of_small_member")
        if "hidden" in cl:
            run.probe("hidden_or_macos_member")
        if "nested" in cl:
            run.probe("nested_archive_member")
    if a.get("corrupt"):
        run.probe("corrupt_archive")


# ------------------------------------------------------------------------------------------------ shrinking
def shrink(case):
    arcs = case["archives"]
    if len(arcs) > 1:
        for i in range(len(arcs) - 1):  # the last archive is where the violation showed
            yield dict(case, archives=arcs[:i] + arcs[i + 1:])
    last = arcs[-1]
    ms = last["spec"]["members"]
    for i in range(len(ms)):
        a2 = copy.deepcopy(last)
        del a2["spec"]["members"][i]
        yield dict(case, archives=arcs[:-1] + [a2])
    if last.get("corrupt"):
        a2 = copy.deepcopy(last)
        a2["corrupt"] = None
        yield dict(case, archives=arcs[:-1] + [a2])
    if case.get("knob"):
        yield dict(case, knob=None)
    if case.get("interleave"):
        yield dict(case, interleave=False)
    o = last["spec"].get("7z")
    if o:
        for key, val in (("encoded_header", False), ("crc", False), ("attrs", False), ("method", "copy"), ("layout", "solid")):
            if o.get(key) != val:
                a2 = copy.deepcopy(last)
                a2["spec"]["7z"][key] = val
                yield dict(case, archives=arcs[:-1] + [a2])
    for i, m in enumerate(ms):
        if m.get("pad"):
            a2 = copy.deepcopy(last)
            a2["spec"]["members"][i]["pad"] = 0
            yield dict(case, archives=arcs[:-1] + [a2])
