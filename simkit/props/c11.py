"""C11 -- the ZIP-container bomb guard decides exactly and runs before any read (engine iosim seam S2, DESIGN.md 3.C11)."""
from __future__ import annotations

import io
import os
import random
import struct
import zipfile

from .. import corpus
from .. import kernel as K

ID = "C11"
ENGINE = "iosim"
LEVEL = "exploration"
BUDGET = {"quick": 30, "thorough": 300}
RUN_TIMEOUT = 120
SELFTEST_PAIRS = {"quick": 12, "thorough": 30}
PROBES = ["predicate_reject", "predicate_accept", "boundary_exact", "directory_entries_present", "empty_entry_with_compressed_bytes", "forged_real_zip",
          "in_memory_zipinfo_list", "ordering_rejected_before_any_member_open", "ordering_accepted_validated_first", "position_preserved_on_reject",
          "position_preserved_on_accept", "same_stream_object_reused", "duplicate_entry_names", "float_ratio_limits", "extractor_history", "file_entry_with_directory_attribute", "bytes_after_end_record"]
RULE = ("predicate runs: entry vectors (file_size, compress_size, is_dir) on a boundary lattice x limit settings, served as in-memory ZipInfo lists "
        "and as real ZIPs with forged central directories to validate_zipfile / open_zipfile / validate_zip_bytesio, against a reference predicate; "
        "ordering runs: histories of 2-6 extractions through the ten ZIP-container extractors on corpus containers whose central directory is "
        "forged to either side of a default limit, with a member-open event log; distinct non-trivial = (clause that decides, side of the boundary, "
        "realisation, entry point) for predicate runs and (extractor, forged clause, outcome) for ordering runs")
ASSUMPTIONS = [
    "the predicate half is seeded generation against a 20-line reference model (no schedule or fault in it); the ordering half is an event-history invariant at the ZipFile seam",
    "member-open events are ZipFile.open calls (ZipFile.read goes through open); validation calls are located by name in util.zip_bomb; if renamed the ordering monitor switches itself off and says so",
    "forged directories change only the size fields of central-directory records (the archive length is unchanged)",
]
COMPONENTS = {"real": ["util.zip_bomb (validate_zipfile, open_zipfile, validate_zip_bytesio, ZipBombLimits)", "util.zip_context / encryption helpers",
                       "docx/docm, pptx/pptm, xlsx/xlsm, odt, ods, odp, odg, odf, epub extractors", "zipfile (stdlib), openpyxl"],
              "stub": ["central directories (forged sizes)", "fake ZipFile serving ZipInfo lists", "the member-open event log"]}

_containers: dict[str, list[str]] = {}
_docs = {}
_monitor_ok = True
EXTS = ["docx", "docm", "pptx", "pptm", "xlsx", "xlsm", "odt", "ods", "odp", "odg", "odf", "epub"]


def warm():
    global _docs, _monitor_ok
    corpus.warm_all(extract=True)
    _docs = corpus.corpus()
    for n in sorted(_docs):
        e = n.rsplit(".", 1)[-1].lower()
        if e in EXTS and "password" not in n and len(_docs[n]) < 900_000 and _docs[n][:2] == b"PK":
            _containers.setdefault(e, []).append(n)
    from sharepoint2text.parsing.extractors.util import zip_bomb
    _monitor_ok = all(hasattr(zip_bomb, f) for f in ("validate_zipfile", "open_zipfile", "validate_zip_bytesio"))


# ------------------------------------------------------------------------------------------------ reference predicate
def ref_reject(entries, lim) -> str | None:
    """entries: [(file_size, compress_size, is_dir)] -> deciding clause or None"""
    if len(entries) > lim["max_entries"]:
        return "entries"
    tu = tc = 0
    for fs, cs, d in entries:
        if d:
            continue
        if fs > lim["single"]:
            return "single"
        if fs > 0 and cs <= 0:
            return "zero_compressed"
        if fs > 0 and fs / cs > lim["entry_ratio"]:
            return "entry_ratio"
        tu += fs
        tc += cs
        if tu > lim["total"]:
            return "total"
    if tu > 0 and (tc <= 0 or tu / tc > lim["total_ratio"]):
        return "total_ratio"
    return None


def _limits_obj(lim):
    from sharepoint2text.parsing.extractors.util.zip_bomb import ZipBombLimits
    return ZipBombLimits(max_entries=lim["max_entries"], max_total_uncompressed_bytes=lim["total"], max_single_uncompressed_bytes=lim["single"],
                         max_total_compression_ratio=lim["total_ratio"], max_entry_compression_ratio=lim["entry_ratio"])


DEFAULT = {"max_entries": 50_000, "total": 4 << 30, "single": 1 << 30, "total_ratio": 200.0, "entry_ratio": 500.0}


# ------------------------------------------------------------------------------------------------ generation
def _gen_limits(rng):
    r = rng.random()
    if r < 0.3:
        return dict(DEFAULT)
    lim = {"max_entries": rng.choice([1, 2, 3, 5, 50_000]), "total": rng.choice([10, 100, 1000, 4 << 30]), "single": rng.choice([5, 50, 500, 1 << 30]),
           "total_ratio": rng.choice([1.0, 2.0, 2.5, 10.0, 200.0]), "entry_ratio": rng.choice([1.0, 3.0, 4.5, 20.0, 500.0])}
    return lim


def _around(rng, t):
    return max(0, int(t) + rng.choice([-1, 0, 0, 1]))


def _gen_entries(rng, lim):
    n = rng.choice([0, 1, 1, 2, 3, 4, 6])
    if rng.random() < 0.08:
        n = max(0, lim["max_entries"] + rng.choice([-1, 0, 1])) if lim["max_entries"] <= 5 else n
    ents = []
    target = rng.choice(["single", "total", "entry_ratio", "total_ratio", "zero", "none", "mixed"])
    for i in range(n):
        d = rng.random() < 0.15
        if target == "single":
            fs = _around(rng, lim["single"]) if i == 0 else rng.choice([0, 1, 3])
            cs = max(1, int(fs / max(1.0, min(lim["entry_ratio"], lim["total_ratio"]))) + 1)
        elif target == "total":
            share = lim["total"] // max(1, n)
            fs = _around(rng, share) if i < n - 1 else max(0, lim["total"] - share * (n - 1) + rng.choice([-1, 0, 1]))
            fs = min(fs, lim["single"])
            cs = max(1, int(fs / max(1.0, min(lim["entry_ratio"], lim["total_ratio"]))) + 1)
        elif target == "entry_ratio":
            cs = rng.choice([1, 2, 7, 100])
            fs = _around(rng, cs * lim["entry_ratio"])
        elif target == "total_ratio":
            cs = rng.choice([1, 2, 7, 100])
            fs = _around(rng, cs * lim["total_ratio"])
        elif target == "zero":
            fs = rng.choice([0, 0, 1, 5])
            cs = rng.choice([0, 0, 2, 1])
        elif target == "none":
            fs = rng.choice([0, 1, 10, 1000])
            cs = max(1, fs // 2) if fs else rng.choice([0, 2])
        else:
            fs = rng.choice([0, 1, 5, 1000, _around(rng, lim["single"])])
            cs = rng.choice([0, 1, 2, 50, max(1, fs // 3)])
        ents.append([int(fs), int(cs), d])
    return ents


# external attributes a packer (or an attacker) may put on a *file* entry: only the trailing slash makes an entry a directory
ATTRS = [0, 0x10, 0x10 | (0o40755 << 16), 0o100644 << 16, 0x20, 0o120777 << 16, 0xFFFFFFFF]


def gen_case(rng: random.Random, tier: str) -> dict:
    if rng.random() < 0.55:
        cases = []
        for _ in range(rng.choice([20, 40, 80])):
            lim = _gen_limits(rng)
            cases.append({"lim": lim, "entries": _gen_entries(rng, lim), "real": rng.random() < 0.45, "pos": rng.choice([0, 0, 5, 17, 10 ** 6]),
                          "dupnames": rng.random() < 0.25,
                          "attrs": [rng.choice(ATTRS) for _ in range(8)] if rng.random() < 0.35 else None,
                          "api": rng.choice(["validate_zipfile", "open_zipfile", "validate_zip_bytesio"])})
        return {"mode": "predicate", "cases": cases}
    steps = []
    e = rng.choice([x for x in EXTS if x in _containers])
    for _ in range(rng.randrange(2, 7)):
        if rng.random() < 0.3:
            e = rng.choice([x for x in EXTS if x in _containers])
        doc = rng.choice(_containers[e])
        forge = rng.choice(["none", "none", "single_over", "single_at", "entry_ratio_over", "entry_ratio_at", "total_ratio_over", "zero_compressed",
                            "total_over", "dir_huge", "single_over_dosdir", "entry_ratio_over_dosdir"])
        steps.append({"doc": doc, "forge": forge, "member": rng.randrange(1 << 20), "reuse_stream": rng.random() < 0.5, "pos": rng.choice([0, 0, 3, 10 ** 7]),
                      "trail": rng.choice([0] * 8 + [100, 70000]),  # bytes after the end record (a few: still a ZIP; > 64 KiB: the end record is out of reach)
                      "entry": rng.choice(["direct", "direct", "read_file", "archive_member"])})
    return {"mode": "ordering", "steps": steps}


# ------------------------------------------------------------------------------------------------ realisations
class FakeZip:
    def __init__(self, entries, dupnames=False, attrs=None):
        self._infos = []
        for i, (fs, cs, d) in enumerate(entries):
            zi = zipfile.ZipInfo((f"e{i % 2}" if dupnames else f"e{i}") + ("/" if d else ".bin"))
            zi.file_size, zi.compress_size = fs, cs
            if attrs and not d:
                zi.external_attr = attrs[i % len(attrs)]
            self._infos.append(zi)

    def infolist(self):
        return self._infos

    def close(self):
        pass


def real_zip(entries, dupnames=False, attrs=None) -> bytes:
    """a real ZIP (tiny stored members) whose central directory is forged to the given sizes"""
    import warnings
    bio = io.BytesIO()
    with warnings.catch_warnings():
        warnings.simplefilter("ignore")
        with zipfile.ZipFile(bio, "w", zipfile.ZIP_STORED) as z:
            for i, (fs, cs, d) in enumerate(entries):
                z.writestr(zipfile.ZipInfo((f"e{i % 2}" if dupnames else f"e{i}") + ("/" if d else ".bin")), b"" if d else b"x")
    data = bytearray(bio.getvalue())
    forge_cd(data, {i: (fs, cs) for i, (fs, cs, d) in enumerate(entries)},
             {i: attrs[i % len(attrs)] for i, (_f, _c, d) in enumerate(entries) if not d} if attrs else None)
    return bytes(data)


def forge_cd(data: bytearray, sizes: dict[int, tuple[int, int]], attrs: dict[int, int] | None = None):
    """overwrite (uncompressed, compressed) size fields of central-directory records by index; values must fit 32 bits"""
    i = 0
    idx = 0
    while True:
        i = data.find(b"PK\x01\x02", i)
        if i < 0:
            break
        if idx in sizes:
            fs, cs = sizes[idx]
            struct.pack_into("<II", data, i + 20, cs & 0xFFFFFFFF, fs & 0xFFFFFFFF)
        if attrs and idx in attrs:
            struct.pack_into("<I", data, i + 38, attrs[idx] & 0xFFFFFFFF)  # external file attributes
        nl, el, cl = struct.unpack_from("<HHH", data, i + 28)
        i += 46 + nl + el + cl
        idx += 1


def cd_entries(data: bytes):
    with zipfile.ZipFile(io.BytesIO(data)) as z:
        return [(x.file_size, x.compress_size, x.is_dir(), x.filename) for x in z.infolist()]


# ------------------------------------------------------------------------------------------------ execution
def _run_predicate(case, log, viol, probes, nontriv):
    from sharepoint2text.parsing.exceptions import ExtractionZipBombError
    from sharepoint2text.parsing.extractors.util import zip_bomb
    evals = 0
    for ci, c in enumerate(case["cases"]):
        lim, ents = c["lim"], [tuple(e) for e in c["entries"]]
        if any(fs >= 2 ** 32 or cs >= 2 ** 32 for fs, cs, _d in ents):
            c = dict(c, real=False)
        want = ref_reject(ents, lim)
        api = c["api"]
        limits = _limits_obj(lim)
        got, pos_after, err = None, None, None
        try:
            if c["real"]:
                probes["forged_real_zip"] = probes.get("forged_real_zip", 0) + 1
                data = real_zip(ents, c.get("dupnames", False), c.get("attrs"))
                bio = io.BytesIO(data)
                p0 = min(c["pos"], len(data))
                bio.seek(p0)
                try:
                    if api == "validate_zipfile":
                        with zipfile.ZipFile(io.BytesIO(data)) as zf:
                            zip_bomb.validate_zipfile(zf, limits=limits, source="sim")
                    elif api == "open_zipfile":
                        zip_bomb.open_zipfile(bio, limits=limits, source="sim").close()
                    else:
                        zip_bomb.validate_zip_bytesio(bio, limits=limits, source="sim")
                    got = None
                except ExtractionZipBombError as e:
                    got = "reject"
                if api == "validate_zip_bytesio":
                    pos_after = bio.tell()
                    probes["position_preserved_on_" + ("reject" if got else "accept")] = probes.get("position_preserved_on_" + ("reject" if got else "accept"), 0) + 1
                    if pos_after != p0:
                        viol.append({"class": "stream_position_not_preserved", "sig": "reject" if got else "accept",
                                     "detail": f"validate_zip_bytesio at position {p0} left the stream at {pos_after} ({'rejected' if got else 'accepted'}); entries={ents[:4]} limits={lim}",
                                     "case": {"mode": "predicate", "cases": [c]}})
            else:
                probes["in_memory_zipinfo_list"] = probes.get("in_memory_zipinfo_list", 0) + 1
                try:
                    zip_bomb.validate_zipfile(FakeZip(ents, c.get("dupnames", False), c.get("attrs")), limits=limits, source="sim")
                    got = None
                except ExtractionZipBombError:
                    got = "reject"
        except Exception as e:
            err = e
        evals += 1
        log.ev("pred", ci, want, got, type(err).__name__ if err else None)
        if err is not None:
            viol.append({"class": "guard_raised_foreign_exception", "sig": f"{api}|{type(err).__name__}", "detail": f"{err!r} entries={ents[:4]} limits={lim}",
                         "case": {"mode": "predicate", "cases": [c]}})
            continue
        if bool(want) != bool(got):
            side = "should_reject" if want else "should_accept"
            viol.append({"class": "guard_decision_wrong", "sig": f"{side}|{want or _nearest(ents, lim)}|{'real' if c['real'] else 'mem'}",
                         "detail": f"{api}: reference says {'reject by ' + want if want else 'accept'}, guard {'rejected' if got else 'accepted'}; entries={ents[:6]} limits={lim}",
                         "case": {"mode": "predicate", "cases": [c]}})
        probes["predicate_reject" if want else "predicate_accept"] = probes.get("predicate_reject" if want else "predicate_accept", 0) + 1
        if c.get("attrs") and any(not d for _a, _b, d in ents):
            probes["file_entry_with_directory_attribute"] = probes.get("file_entry_with_directory_attribute", 0) + 1
        if c.get("dupnames") and len(ents) > 2:
            probes["duplicate_entry_names"] = probes.get("duplicate_entry_names", 0) + 1
        if any(d for _a, _b, d in ents):
            probes["directory_entries_present"] = probes.get("directory_entries_present", 0) + 1
        if any(fs == 0 and cs > 0 and not d for fs, cs, d in ents):
            probes["empty_entry_with_compressed_bytes"] = probes.get("empty_entry_with_compressed_bytes", 0) + 1
        if lim["total_ratio"] != int(lim["total_ratio"]) or lim["entry_ratio"] != int(lim["entry_ratio"]):
            probes["float_ratio_limits"] = probes.get("float_ratio_limits", 0) + 1
        near = _nearest(ents, lim)
        if near.endswith("=="):
            probes["boundary_exact"] = probes.get("boundary_exact", 0) + 1
        nontriv.add(f"pred|{want or 'accept'}|{near}|{'real' if c['real'] else 'mem'}|{api}")
    return evals


def _nearest(ents, lim) -> str:
    """which threshold the vector sits on / next to (for distinctness and signatures)"""
    files = [(fs, cs) for fs, cs, d in ents if not d]
    tu, tc = sum(f for f, _ in files), sum(c for _, c in files)
    for name, val, thr in [("entries", len(ents), lim["max_entries"]), ("single", max([f for f, _ in files], default=0), lim["single"]), ("total", tu, lim["total"])]:
        if abs(val - thr) <= 1:
            return f"{name}{'==' if val == thr else '>' if val > thr else '<'}"
    for f, c in files:
        if c > 0 and abs(f - c * lim["entry_ratio"]) <= 1:
            return f"entry_ratio{'==' if f == c * lim['entry_ratio'] else '~'}"
    if tc > 0 and abs(tu - tc * lim["total_ratio"]) <= 1:
        return f"total_ratio{'==' if tu == tc * lim['total_ratio'] else '~'}"
    return "interior"


def _forge_container(data: bytes, forge: str, member: int):
    """-> (bytes, expect_reject_clause|None)"""
    if forge == "none":
        return data, None
    ents = cd_entries(data)
    files = [i for i, (fs, cs, d, _n) in enumerate(ents) if not d]
    if not files:
        return data, None
    k = files[member % len(files)]
    fs, cs, _d, _n = ents[k]
    b = bytearray(data)
    G = 1 << 30
    if forge == "single_over":
        forge_cd(b, {k: (G + 1, max(cs, (G + 1) // 150 + 1))})
    elif forge == "single_over_dosdir":
        forge_cd(b, {k: (G + 1, max(cs, (G + 1) // 150 + 1))}, {k: 0x10 | (0o40755 << 16)})
    elif forge == "entry_ratio_over_dosdir":
        c2 = max(1, cs)
        forge_cd(b, {k: (c2 * 500 + 1, c2)}, {k: 0x10})
    elif forge == "single_at":
        forge_cd(b, {k: (G, max(cs, G // 150 + 1))})
    elif forge == "entry_ratio_over":
        c2 = max(1, cs)
        forge_cd(b, {k: (c2 * 500 + 1, c2)})
    elif forge == "entry_ratio_at":
        c2 = max(1, cs)
        forge_cd(b, {k: (c2 * 500, c2)})
    elif forge == "total_ratio_over":
        tc = sum(c for f, c, d, _ in ents if not d)
        forge_cd(b, {k: (tc * 200 + 1000, max(1, cs))})
    elif forge == "zero_compressed":
        forge_cd(b, {k: (max(1, fs), 0)})
    elif forge == "total_over":
        sz = {}
        for j in files[:6]:
            sz[j] = (G - 1, (G - 1) // 100 + 1)
        forge_cd(b, sz)
    elif forge == "dir_huge":
        dirs = [i for i, (f, c, d, _n) in enumerate(ents) if d]
        if not dirs:
            return data, None
        forge_cd(b, {dirs[0]: (0xFFFFFFF0, 1)})
    data2 = bytes(b)
    want = ref_reject([(f, c, d) for f, c, d, _n in cd_entries(data2)], DEFAULT)
    return data2, want


def _run_ordering(case, log, viol, probes, nontriv):
    import sharepoint2text
    from sharepoint2text.parsing.exceptions import ExtractionError, ExtractionZipBombError
    from sharepoint2text.parsing.extractors.util import zip_bomb
    from sharepoint2text.parsing.router import get_extractor
    probes["extractor_history"] = 1
    events = []
    real_open = zipfile.ZipFile.open
    real_validate = zip_bomb.validate_zipfile if _monitor_ok else None

    def spy_open(self, name, *a, **k):
        events.append(("member_open", getattr(name, "filename", name)))
        return real_open(self, name, *a, **k)

    def spy_validate(zf, *a, **k):
        try:
            r = real_validate(zf, *a, **k)
            events.append(("validated", None))
            return r
        except BaseException as e:
            events.append(("validation_raised", type(e).__name__))
            raise

    zipfile.ZipFile.open = spy_open
    if _monitor_ok:
        zip_bomb.validate_zipfile = spy_validate
    sbx = os.path.join(K.sandbox_root(), f"c11-{os.getpid()}")
    os.makedirs(sbx, exist_ok=True)
    shared = io.BytesIO()
    evals = 0
    try:
        for si, st in enumerate(case["steps"]):
            ext = st["doc"].rsplit(".", 1)[-1].lower()
            data, want = _forge_container(_docs[st["doc"]], st["forge"], st["member"])
            if st.get("trail"):
                data += b"\x00" * st["trail"]
                probes["bytes_after_end_record"] = probes.get("bytes_after_end_record", 0) + 1
                if st["trail"] > 65535:
                    want = None  # no longer readable as a ZIP at all: any family error will do -- but no member may be read unvalidated
            del events[:]
            exc = None
            entry = st["entry"]
            try:
                if entry == "direct":
                    if st["reuse_stream"]:
                        probes["same_stream_object_reused"] = probes.get("same_stream_object_reused", 0) + 1
                        shared.seek(0)
                        shared.truncate()
                        shared.write(data)
                        bio = shared
                    else:
                        bio = io.BytesIO(data)
                    bio.seek(min(st["pos"], len(data)))
                    list(get_extractor("x." + ext)(bio, "x." + ext))
                elif entry == "read_file":
                    p = os.path.join(sbx, f"s{si}.{ext}")
                    with open(p, "wb") as f:
                        f.write(data)
                    list(sharepoint2text.read_file(p))
                else:
                    zb = io.BytesIO()
                    with zipfile.ZipFile(zb, "w", zipfile.ZIP_STORED) as z:
                        z.writestr("m." + ext, data)
                    del events[:]
                    list(get_extractor("A.zip")(io.BytesIO(zb.getvalue()), "A.zip"))
            except BaseException as e:  # noqa
                exc = e
            evals += 1
            ev = list(events)
            if entry == "archive_member":
                # the outer archive legitimately opens its member; only events after that first open belong to the container
                first = next((i for i, e in enumerate(ev) if e[0] == "member_open"), None)
                ev = ev[first + 1:] if first is not None else ev
            opens_before_validation = 0
            validated = False
            for e in ev:
                if e[0] in ("validated", "validation_raised"):
                    validated = True
                    break
                if e[0] == "member_open":
                    opens_before_validation += 1
            n_opens = sum(1 for e in ev if e[0] == "member_open")
            rejected = isinstance(exc, ExtractionZipBombError) or (entry == "archive_member" and any(e == ("validation_raised", "ExtractionZipBombError") for e in ev))
            log.ev("step", si, ext, st["forge"], entry, type(exc).__name__ if exc else None, n_opens, validated)
            tc = {"mode": "ordering", "steps": case["steps"][: si + 1]}
            if exc is not None and not isinstance(exc, ExtractionError):
                viol.append({"class": "guard_raised_foreign_exception", "sig": f"{ext}|{type(exc).__name__}", "detail": f"step {si}: {exc!r}", "case": tc})
                continue
            if want and not rejected:
                viol.append({"class": "bomb_accepted_by_extractor", "sig": f"{ext}|{want}|{entry}", "case": tc,
                             "detail": f"step {si} {st['doc']} forged {st['forge']} (reference: reject by {want}) was not rejected with the zip-bomb error: exc={exc!r}, {n_opens} members opened"})
            if not want and rejected:
                viol.append({"class": "container_wrongly_rejected", "sig": f"{ext}|{st['forge']}|{entry}", "case": tc,
                             "detail": f"step {si} {st['doc']} forged {st['forge']} (reference: accept) was rejected: {exc!r}"})
            if _monitor_ok:
                if rejected:
                    probes["ordering_rejected_before_any_member_open"] = probes.get("ordering_rejected_before_any_member_open", 0) + 1
                    if opens_before_validation:
                        viol.append({"class": "member_read_before_validation", "sig": f"{ext}|rejected|{entry}", "case": tc,
                                     "detail": f"step {si}: {opens_before_validation} member(s) opened before the container was rejected: {ev[:4]}"})
                elif n_opens:
                    probes["ordering_accepted_validated_first"] = probes.get("ordering_accepted_validated_first", 0) + 1
                    if opens_before_validation or not validated:
                        viol.append({"class": "member_read_before_validation", "sig": f"{ext}|{'never_validated' if not validated else 'accepted'}|{entry}", "case": tc,
                                     "detail": f"step {si} {st['doc']}: {n_opens} member opens, {opens_before_validation} before the first validation (validated={validated}): {ev[:4]}"})
            nontriv.add(f"ord|{ext}|{st['forge']}|{'rej' if rejected else 'acc'}|{entry}")
    finally:
        zipfile.ZipFile.open = real_open
        if _monitor_ok:
            zip_bomb.validate_zipfile = real_validate
        import shutil
        shutil.rmtree(sbx, ignore_errors=True)
    return evals


def run_case(case: dict) -> dict:
    log = K.EventLog()
    log.ev("case", K.h64(K.jdump(case)))
    viol, probes, nontriv = [], {}, set()
    if case["mode"] == "predicate":
        evals = _run_predicate(case, log, viol, probes, nontriv)
    else:
        evals = _run_ordering(case, log, viol, probes, nontriv)
    seen, out = set(), []
    for v in viol:
        if (v["class"], v["sig"]) not in seen:
            seen.add((v["class"], v["sig"]))
            out.append(v)
    return {"violations": out, "digest": log.digest(), "steps": log.n, "evals": evals, "faults": {"forged_directory": sum(1 for s in case.get("steps", []) if s["forge"] != "none")},
            "probes": probes, "nontrivial": sorted(nontriv), "states": [log.digest()[:8]], "summary": {"mode": case["mode"], "evals": evals,
                                                                                                     "ordering_monitor_active": _monitor_ok}}


def evidence_extra(agg):
    return {"ordering_monitor_active": _monitor_ok}


def shrink(case):
    if case["mode"] == "predicate":
        cs = case["cases"]
        if len(cs) > 1:
            for c in cs:
                yield {"mode": "predicate", "cases": [c]}
            return
        c = cs[0]
        for i in range(len(c["entries"])):
            yield {"mode": "predicate", "cases": [dict(c, entries=c["entries"][:i] + c["entries"][i + 1:])]}
        if c.get("real"):
            yield {"mode": "predicate", "cases": [dict(c, real=False)]}
        return
    st = case["steps"]
    for i in range(len(st) - 1):
        yield {"mode": "ordering", "steps": st[:i] + st[i + 1:]}
    last = st[-1]
    for key, val in (("entry", "direct"), ("reuse_stream", False), ("pos", 0)):
        if last.get(key) != val:
            yield {"mode": "ordering", "steps": st[:-1] + [dict(last, **{key: val})]}
