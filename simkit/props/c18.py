"""C18 -- SharePoint listing is complete, exact and fault-contained (engine netsim, DESIGN.md 2.2 / 3.C18)."""
from __future__ import annotations

import copy
import fnmatch
import random
from datetime import datetime, timedelta, timezone

from .. import kernel as K
from ..graphsim import CORE_KINDS, EXT_KINDS, GraphSim

ID = "C18"
ENGINE = "netsim"
LEVEL = "fault_enumeration"
BUDGET = {"quick": 45, "thorough": 900}
RUN_TIMEOUT = 120
SELFTEST_PAIRS = {"quick": 12, "thorough": 40}
PROBES = ["empty_page_with_nextlink", "fault_on_folder_pass", "fault_on_token", "fault_on_site", "fault_on_folder_by_path",
          "fault_on_next_page", "consumer_closed_midway", "multi_call_history", "named_drive", "bound_exactly_on_timestamp",
          "relax_404_folder_lookup", "fractional_timestamp", "second_fault_during_retry", "second_fault_on_token", "repeat_with_same_argument_objects", "two_listings_consumed_alternately"]
RULE = ("one run = one simulated library (random tree, page-size policy, 1-3 listing calls with filters) executed "
        "fault-free against a reference walk, then once per (request index k, fault kind), a seeded share of those followed by a second "
        "fault at a seeded request of the caller's retry, always ending with a healthy retry; "
        "a case is non-trivial and distinct by (call kind, request class of k, fault kind, k>1, tree has >1 page, tree depth>1)")
ASSUMPTIONS = [
    "the Graph/Entra server, the response objects and the transport are stubs written from the Graph API behaviour the client relies on (GraphSim)",
    "faults are injected through the client's own request_func= seam; urllib itself is not exercised",
    "naive datetimes in filters and overlapping folder_paths are caller errors and are not generated",
    "fault kinds include raw TimeoutError/ConnectionResetError/IncompleteRead from send or read() and wrong-shape JSON (what urlopen/read() really raise)",
]
COMPONENTS = {"real": ["sharepoint2text.sharepoint_io.client (SharePointRestClient, FileFilter, _parse_iso_datetime)",
                       "sharepoint2text.sharepoint_io.exceptions", "urllib.request.Request", "json"],
              "stub": ["Entra token endpoint", "Graph API server (sites, drives, children, root:/path, nextLink paging)",
                       "transport / socket (request_func)", "HTTP response objects"]}

_client = None


def warm():
    global _client
    from sharepoint2text.sharepoint_io import client as c
    import sharepoint2text.sharepoint_io.exceptions  # noqa
    _client = c


# ----------------------------------------------------------------------------------------------- generation
NAMES = ["a", "Report", "Q1 plan", "x#1", "50%off", "what?", "a&b", "c+d", "it's", "ünï", "data.", "README", "日本", "tab\there",
         "semi;colon", "eq=", "at@", "a b  c", "UP", "lo", "Z9", "p(1)", "[br]", "star*"]
EXTS = [".docx", ".DOCX", ".pdf", ".Pdf", ".xlsx", ".txt", ".TXT", "", ".tar.gz", ".pptx", ".md"]
T0 = datetime(2024, 3, 10, 12, 0, 0, tzinfo=timezone.utc)


def _ts(rng, frac_ok):
    dt = T0 + timedelta(seconds=rng.randrange(0, 40) * 3600 + rng.choice([0, 0, 0, 1, 59, 1800]))
    style = rng.choice(["Z", "Z", "Z", "+00:00"] + (["fracZ", "frac+"] if frac_ok else []))
    if style == "Z":
        return dt.strftime("%Y-%m-%dT%H:%M:%SZ"), dt
    if style == "+00:00":
        return dt.strftime("%Y-%m-%dT%H:%M:%S+00:00"), dt
    ms = rng.choice([1, 250, 500, 999])
    dt2 = dt + timedelta(milliseconds=ms)
    if style == "fracZ":
        return dt.strftime("%Y-%m-%dT%H:%M:%S") + f".{ms:03d}Z", dt2
    return dt.strftime("%Y-%m-%dT%H:%M:%S") + f".{ms:03d}0000+00:00", dt2


def _gen_tree(rng, depth, budget, ids, frac_ok, used_prefix=""):
    items = []
    n = rng.choice([0, 1, 2, 3, 4, 6]) if depth > 0 else rng.choice([1, 2, 3, 5])
    names = set()
    for _ in range(n):
        if budget[0] <= 0:
            break
        budget[0] -= 1
        nm = rng.choice(NAMES)
        kind = rng.choices(["file", "folder", "other"], [6, 3 if depth < 3 else 0, 1])[0]
        if kind == "file":
            nm = nm + rng.choice(EXTS)
        while nm in names:
            nm += "_"
        names.add(nm)
        iid = "01" + "".join(rng.choice("ABCDEFGHJKLMNPQRSTUVWXYZ234567") for _ in range(10)) + str(len(ids))
        ids.append(iid)
        it = {"id": iid, "name": nm, "kind": kind}
        if kind == "folder":
            it["children"] = _gen_tree(rng, depth + 1, budget, ids, frac_ok)
            if rng.random() < 0.25:
                it["nocount"] = True  # Graph may omit childCount in the folder facet
        else:
            if rng.random() < 0.85:
                it["size"] = rng.choice([0, 1, 1024, 10 ** 7])
            if rng.random() < 0.85:
                it["mime"] = rng.choice(["application/pdf", "text/plain", "application/octet-stream"])
            if rng.random() < 0.93:
                it["created"] = _ts(rng, frac_ok)[0]
            if rng.random() < 0.93:
                it["modified"] = _ts(rng, frac_ok)[0]
            r = rng.random()
            if r < 0.3:
                it["fields"] = {"id": "9", "ContentType": "Document", "Department": rng.choice(["HR", "IT"]),
                                "@odata.etag": "x", "Review_x0020_Date": "2024-01-01"}
            elif r < 0.4:
                it["fields"] = {"id": "9", "Created": "x"}
        items.append(it)
    return items


def _all_folder_paths(items, prefix=""):
    out = []
    for it in items:
        if it["kind"] == "folder":
            p = f"{prefix}/{it['name']}" if prefix else it["name"]
            out.append(p)
            out += _all_folder_paths(it["children"], p)
    return out


def _all_files(items, prefix=""):
    out = []
    for it in items:
        if it["kind"] == "file":
            out.append((prefix, it))
        elif it["kind"] == "folder":
            p = f"{prefix}/{it['name']}" if prefix else it["name"]
            out += _all_files(it["children"], p)
    return out


def _iso(dt):
    return dt.isoformat()


def _gen_filter(rng, tree, frac_ok):
    f = {}
    files = _all_files(tree)
    stamps = []
    for _p, it in files:
        for k in ("created", "modified"):
            if it.get(k):
                stamps.append(_parse_ref(it[k]))
    def bound():
        if stamps and rng.random() < 0.8:
            base = rng.choice(stamps)
            if frac_ok:
                fr = [x for x in stamps if x.microsecond]
                if fr and rng.random() < 0.7:
                    base = rng.choice(fr)
                delta = rng.choice([0, 0, -1, 1, 0.25, -0.25, -0.25, -0.0005, 0.0005, 0.75])
            else:
                base = base.replace(microsecond=0)
                delta = rng.choice([0, 0, -1, 1, 3600])
            dt = base + timedelta(seconds=delta)
        else:
            dt = T0 + timedelta(hours=rng.randrange(-2, 45))
        if rng.random() < 0.3:
            dt = dt.astimezone(timezone(timedelta(hours=rng.choice([2, -5, 5.5]))))
        return _iso(dt)
    for key in ("created_after", "created_before", "modified_after", "modified_before"):
        if rng.random() < 0.3:
            f[key] = bound()
    if rng.random() < 0.4:
        f["extensions"] = rng.sample([".docx", ".PDF", ".pdf", ".txt", ".Xlsx", ".gz", ".tar.gz", ".md"], rng.choice([1, 1, 2]))
    if rng.random() < 0.4:
        pats = ["*.docx", "*.pdf", "*", "*/*", "Report*/*", "*/Report*", "?*.txt", "*[0-9]*", "a/*", "*.PDF", "*Q1 plan*",
                "*/*/*", "[!a]*"]
        folders = _all_folder_paths(tree)
        if folders:
            pats += [rng.choice(folders) + "/*", rng.choice(folders).split("/")[0] + "/*.docx"]
        f["path_patterns"] = rng.sample(pats, rng.choice([1, 1, 2]))
    if rng.random() < 0.45:
        folders = _all_folder_paths(tree)
        cand = []
        rng.shuffle(folders)
        for p in folders:
            if not any(p == c or p.startswith(c + "/") or c.startswith(p + "/") for c in cand):
                cand.append(p)
            if len(cand) >= 2:
                break
        if rng.random() < 0.3:
            cand.append(rng.choice(["missing", "no/such folder", "Report/zz%20"]))
        if rng.random() < 0.15 and files:
            pth, it = rng.choice(files)
            fp = f"{pth}/{it['name']}" if pth else it["name"]  # a file named as folder -> not a folder -> empty
            if not any(fp == c or fp.startswith(c + "/") for c in cand):
                cand.append(fp)
        if rng.random() < 0.3:
            # the same folders written the way people write paths: leading and / or trailing separator
            cand = [rng.choice(["/" + c, c + "/", "/" + c + "/"]) if rng.random() < 0.7 else c for c in cand]
        f["folder_paths"] = cand
    return f


def gen_case(rng: random.Random, tier: str) -> dict:
    frac_ok = rng.random() < 0.25
    ids: list[str] = []
    budget = [rng.choice([3, 8, 15, 30, 40])]
    tree = _gen_tree(rng, 0, budget, ids, frac_ok)
    drives = {"": tree}
    if rng.random() < 0.3:
        drives["b!" + "".join(rng.choice("abcXYZ019_-") for _ in range(8))] = _gen_tree(rng, 1, [rng.choice([2, 6, 12])], ids, frac_ok)
    host = rng.choice(["contoso.sharepoint.com", "a-b.sharepoint.com"])
    spath = rng.choice(["", "/sites/Team", "/sites/My Team", "/teams/x/y"])
    site = {"tenant": rng.choice(["11111111-2222-3333-4444-555555555555", "contoso.onmicrosoft.com"]),
            "client_id": "cid-" + str(rng.randrange(1000)), "client_secret": rng.choice(["s3cr&t=+ /x", "plain", "p%41ss"]),
            "scope": rng.choice(["https://graph.microsoft.com/.default", "api://custom/.default"]),
            "url": f"https://{host}{spath}" + rng.choice(["", "/"]), "lookup": host + (":" + spath if spath else ""),
            "id": f"{host},{rng.randrange(10**6)}-aaaa,{rng.randrange(10**6)}-bbbb"}
    pol = rng.choice(["big", "one", "two", "vary", "vary0"])
    pages = {"big": [100], "one": [1], "two": [2], "vary": [rng.choice([1, 2, 3, 5]) for _ in range(5)],
             "vary0": [rng.choice([0, 1, 2, 3]) for _ in range(4)] + [rng.choice([1, 2])]}[pol]
    calls = []
    for _ in range(rng.choice([1, 1, 2, 3])):
        kind = rng.choices(["list_all_files", "list_files_filtered", "list_files_modified_since", "list_files_created_since",
                            "list_files_in_folder"], [3, 5, 1, 1, 1])[0]
        drive = rng.choice([d for d in drives]) if rng.random() < 0.35 else ""
        c = {"kind": kind}
        if kind == "list_all_files":
            pass
        elif kind == "list_files_filtered":
            c["filter"] = _gen_filter(rng, drives[drive], frac_ok)
            c["drive"] = drive
            c["consume"] = rng.choice(["all", "all", "all", "close_after", "throw_after", "drop_after"])
            if c["consume"] != "all":
                c["k"] = rng.randrange(0, 4)
        elif kind in ("list_files_modified_since", "list_files_created_since"):
            flt = _gen_filter(rng, drives[drive], frac_ok)
            c["since"] = flt.get("modified_after") or flt.get("created_after") or _iso(T0 + timedelta(hours=rng.randrange(0, 40)))
            c["folder_paths"] = flt.get("folder_paths") or []
            c["extensions"] = flt.get("extensions") or []
            c["drive"] = drive
        else:
            folders = _all_folder_paths(drives[drive])
            c["folder"] = rng.choice((folders or [""]) + ["/"])  # nested paths too: every separator has to survive the quoting
            if c["folder"] and c["folder"] != "/" and rng.random() < 0.3:
                c["folder"] = rng.choice(["/" + c["folder"], c["folder"] + "/", "/" + c["folder"] + "/"])
            c["drive"] = drive
        calls.append(c)
    nk = rng.choice([3, 5, len(CORE_KINDS)])
    kinds = rng.sample(CORE_KINDS, nk)
    if rng.random() < 0.6:
        kinds += rng.sample(EXT_KINDS, rng.choice([2, 4, len(EXT_KINDS)]))
    inter = None
    if len(calls) >= 2 and rng.random() < 0.5:
        ia, ib = rng.sample(range(len(calls)), 2)
        inter = {"pair": [ia, ib], "pattern": [rng.randrange(2) for _ in range(rng.choice([2, 3, 7]))]}
        if len(set(inter["pattern"])) < 2:
            inter["pattern"] = [0, 1]
    return {"interleave": inter, "lib": {"site": site, "drives": drives, "pages": pages}, "calls": calls, "faults": {"mode": "enumerate", "kinds": kinds,
            "cap": 80 if tier == "quick" else 200, "pick": rng.randrange(1 << 30),
            "second": rng.choice([0, 0, 0.25, 0.25, 1.0])}, "status_attr": rng.random() < 0.8}


# ----------------------------------------------------------------------------------------------- reference model
def _parse_ref(s: str) -> datetime:
    # independent, complete ISO-8601 parse (keeps fractions)
    t = s
    if t.endswith("Z"):
        t = t[:-1] + "+00:00"
    if "." in t:
        base, rest = t.split(".", 1)
        i = 0
        while i < len(rest) and rest[i].isdigit():
            i += 1
        frac = (rest[:i] + "000000")[:6]
        t = base + "." + frac + rest[i:]
    return datetime.fromisoformat(t)


def _ref_match(flt: dict, parent: str, it: dict) -> bool:
    for fld, src in (("created", "created"), ("modified", "modified")):
        a, b = flt.get(fld + "_after"), flt.get(fld + "_before")
        if a or b:
            if not it.get(src):
                return False
            dt = _parse_ref(it[src])
            if a and not (dt >= datetime.fromisoformat(a)):
                return False
            if b and not (dt < datetime.fromisoformat(b)):
                return False
    exts = flt.get("extensions")
    if exts:
        if not any(it["name"].casefold().endswith(e.casefold()) for e in exts):
            return False
    pats = flt.get("path_patterns")
    if pats:
        full = f"{parent}/{it['name']}" if parent else it["name"]
        if not any(fnmatch.fnmatchcase(full, p) for p in pats):
            return False
    return True


def _find_folder(tree, path):
    cur = tree
    node = None
    for name in path.strip("/").split("/"):
        node = next((c for c in cur if c["name"] == name), None)
        if node is None or node["kind"] != "folder":
            return None
        cur = node["children"]
    return node


def reference(lib, call) -> list[tuple]:
    """Expected multiset of (id, name, parent_path or None) for one call."""
    kind = call["kind"]
    if kind == "list_all_files":
        return sorted((it["id"], it["name"], p or None) for p, it in _all_files(lib["drives"][""]))
    if kind == "list_files_in_folder":
        tree = lib["drives"][call["drive"]]
        if call["folder"] in ("/", ""):
            items = tree
        else:
            items = _find_folder(tree, call["folder"])["children"]
        return sorted((it["id"], it["name"], None) for it in items if it["kind"] == "file")
    if kind == "list_files_filtered":
        flt = call["filter"]
    elif kind == "list_files_modified_since":
        flt = {"modified_after": call["since"], "folder_paths": call["folder_paths"], "extensions": call["extensions"]}
    else:
        flt = {"created_after": call["since"], "folder_paths": call["folder_paths"], "extensions": call["extensions"]}
    tree = lib["drives"][call["drive"]]
    out = []
    targets = flt.get("folder_paths") or []
    if targets:
        for fp in targets:
            node = _find_folder(tree, fp)
            if node is None:
                continue
            for p, it in _all_files(node["children"], fp.strip("/")):
                if _ref_match(flt, p, it):
                    out.append((it["id"], it["name"], p or None))
    else:
        for p, it in _all_files(tree):
            if _ref_match(flt, p, it):
                out.append((it["id"], it["name"], p or None))
    return sorted(out)


# ----------------------------------------------------------------------------------------------- execution
class _Ctx:
    pass


def _mk_filter(flt):
    c = _client
    kw = {}
    for k in ("created_after", "created_before", "modified_after", "modified_before"):
        if flt.get(k):
            kw[k] = datetime.fromisoformat(flt[k])
    for k in ("folder_paths", "path_patterns", "extensions"):
        if flt.get(k):
            kw[k] = list(flt[k])
    return c.FileFilter(**kw)


def _args_for(call, held, tagc):
    """The caller's own argument objects for one call of the history: built once from the (immutable) case and
    reused when the caller repeats or retries that call, the way a program keeps its FileFilter / folder list around."""
    if held is None:
        held = {}
    a = held.get(tagc)
    if a is None:
        a = held[tagc] = {"filter": _mk_filter(call["filter"]) if call.get("filter") is not None else None,
                          "since": datetime.fromisoformat(call["since"]) if call.get("since") else None,
                          "folder_paths": list(call["folder_paths"]) if call.get("folder_paths") else None,
                          "extensions": list(call["extensions"]) if call.get("extensions") else None}
    return a


def _start(client, call, a):
    kind = call["kind"]
    drive = call.get("drive") or None
    if kind == "list_all_files":
        return client.list_all_files()
    if kind == "list_files_in_folder":
        return client.list_files_in_folder(call["folder"], drive_id=drive)
    if kind == "list_files_filtered":
        return client.list_files_filtered(a["filter"], drive_id=drive)
    if kind == "list_files_modified_since":
        return client.list_files_modified_since(a["since"], folder_paths=a["folder_paths"], extensions=a["extensions"], drive_id=drive)
    return client.list_files_created_since(a["since"], folder_paths=a["folder_paths"], extensions=a["extensions"], drive_id=drive)


def _interleaved(client, calls, idx, pattern, held):
    """two listings of one client consumed alternately (a program that zips two lazy listings): -> [(items, exc)] per listing"""
    its, outs, excs, alive = [], [[], []], [None, None], [True, True]
    for j, ci in enumerate(idx):
        try:
            its.append(iter(_start(client, calls[ci], _args_for(calls[ci], held, ci))))
        except BaseException as e:  # noqa
            its.append(iter(()))
            excs[j] = e
    i = 0
    while any(alive) and i < 100000:
        j = pattern[i % len(pattern)]
        i += 1
        if not alive[j]:
            j = 1 - j
        try:
            outs[j].append(next(its[j]))
        except StopIteration:
            alive[j] = False
        except BaseException as e:  # noqa
            alive[j] = False
            excs[j] = e
    return [(outs[0], excs[0]), (outs[1], excs[1])]


def _invoke(client, sim, call, viol, tagc, held=None):
    """Run one listing call, consuming lazily; returns (items, exception, closed_early)."""
    kind = call["kind"]
    items = []
    exc = None
    a = _args_for(call, held, tagc)
    try:
        res = _start(client, call, a)
        if isinstance(res, list):
            items = list(res)
        else:
            it = iter(res)
            mode = call.get("consume")
            stop_after = call.get("k") if mode in ("close_after", "throw_after", "drop_after") else None
            while True:
                if stop_after is not None and len(items) >= stop_after:
                    if mode == "throw_after":
                        try:
                            res.throw(KeyError("consumer failure"))
                        except KeyError:
                            pass
                        except StopIteration:
                            pass
                    elif mode == "drop_after":
                        it = None
                        res = None
                        import gc
                        gc.collect()
                    else:
                        res.close()
                    if sim.open_responses():
                        viol.append({"class": "response_left_open", "sig": f"{kind}|consumer_close",
                                     "detail": f"{sim.open_responses()} responses open after generator.close()"})
                    return items, None, True
                try:
                    x = next(it)
                except StopIteration:
                    break
                items.append(x)
                if sim.open_responses():
                    viol.append({"class": "response_left_open", "sig": f"{kind}|between_next",
                                 "detail": f"{sim.open_responses()} responses open while the consumer holds control"})
    except BaseException as e:  # noqa
        exc = e
    return items, exc, False


def _tuples(items):
    return sorted((m.id, m.name, (m.parent_path.strip("/") or None) if m.parent_path else None) for m in items)


def _new(lib, log=None, has_status=True):
    sim = GraphSim(lib, log, has_status=has_status)
    s = lib["site"]
    cl = _client.SharePointRestClient(s["url"], _client.EntraIDAppCredentials(s["tenant"], s["client_id"], s["client_secret"], s["scope"]),
                                      request_func=sim.transport)
    return sim, cl


def _submultiset(a, b):
    b = list(b)
    for x in a:
        if x in b:
            b.remove(x)
        else:
            return False
    return True


def _judge(kind, rclass, k, furl, exc, items, ref, viol, tagsig, focus, probe):
    """Oracle for one call that met one injected fault: it fails inside the client's error family with the failing
    request's status and URL, and whatever it yielded first is real data."""
    from sharepoint2text.sharepoint_io.exceptions import SharePointError, SharePointRequestError
    is_404 = kind in ("http:404", "status:404")
    if exc is None:
        if is_404 and rclass == "folder_by_path":
            probe("relax_404_folder_lookup")  # indistinguishable from "folder does not exist": empty listing is documented
            if not _submultiset(_tuples(items), ref):
                viol.append({"class": "fault_wrong_data", "sig": tagsig, "case": focus,
                             "detail": f"k={k}: items not within reference after 404 on folder lookup"})
        elif kind == "status:199" or kind.startswith("status:") and 200 <= int(kind[7:]) < 300:
            pass
        else:
            viol.append({"class": "fault_swallowed", "sig": tagsig, "case": focus,
                         "detail": f"k={k} url={furl}: request failed ({kind}) but the call returned normally with {len(items)} items"})
    else:
        if not isinstance(exc, SharePointError):
            viol.append({"class": "fault_escape", "sig": tagsig + "|" + type(exc).__name__, "case": focus,
                         "detail": f"k={k} url={furl}: {type(exc).__name__}: {exc!r} is not of the client's SharePointError family"})
        else:
            want_status = None
            need_req = False
            if kind.startswith("http_bin:"):
                want_status, need_req = int(kind[9:]), True
            elif kind.startswith("status_bin:"):
                want_status, need_req = int(kind[11:]), True
            elif kind.startswith("http:"):
                want_status, need_req = int(kind[5:]), True
            elif kind.startswith("status:"):
                want_status, need_req = int(kind[7:]), True
            elif kind.startswith("nostatus:"):
                want_status, need_req = int(kind[9:]), True
            elif kind.startswith("urlerror") or kind.startswith("exc_"):
                want_status, need_req = None, True
            if need_req:
                if not isinstance(exc, SharePointRequestError):
                    viol.append({"class": "fault_wrong_error", "sig": tagsig + "|" + type(exc).__name__, "case": focus,
                                 "detail": f"k={k}: HTTP/network failure must raise SharePointRequestError, got {exc!r}"})
                else:
                    if exc.status_code != want_status:
                        viol.append({"class": "fault_wrong_status", "sig": tagsig, "case": focus,
                                     "detail": f"k={k}: status_code={exc.status_code!r}, injected {want_status!r}"})
                    if exc.url != furl:
                        viol.append({"class": "fault_wrong_url", "sig": tagsig, "case": focus,
                                     "detail": f"k={k}: error url={exc.url!r}, failing request url={furl!r}"})
        if not _submultiset(_tuples(items), ref):
            viol.append({"class": "fault_wrong_data", "sig": tagsig, "case": focus,
                         "detail": f"k={k}: items yielded before the error are not within the reference"})


def run_case(case: dict) -> dict:
    from sharepoint2text.sharepoint_io.exceptions import SharePointError, SharePointRequestError
    lib = case["lib"]
    calls = case["calls"]
    log = K.EventLog()
    log.ev("seed-case", K.h64(K.jdump(case)))
    viol: list[dict] = []
    probes = {}
    faults = {}
    nontriv = set()
    evals = 0

    def probe(n):
        probes[n] = probes.get(n, 0) + 1

    refs = [reference(lib, c) for c in calls]
    multi_page = any(True for _ in [0]) and (min(lib["pages"]) < 5)
    depth2 = any("/" in p for d in lib["drives"].values() for p in _all_folder_paths(d))
    if len(calls) > 1:
        probe("multi_call_history")
    if any(c.get("drive") for c in calls):
        probe("named_drive")
    if 0 in lib["pages"]:
        probe("empty_page_with_nextlink")
    stamps = {_parse_ref(it[k2]) for d in lib["drives"].values() for _p, it in _all_files(d) for k2 in ("created", "modified") if it.get(k2)}
    for c in calls:
        bs = [v for k2, v in (c.get("filter") or {}).items() if k2.endswith(("_after", "_before"))] + ([c["since"]] if c.get("since") else [])
        if any(datetime.fromisoformat(b) in stamps for b in bs):
            probe("bound_exactly_on_timestamp")

    # ---- fault-free pass
    sim, cl = _new(lib, log, case.get('status_attr', True))
    spans = []  # (call index, first request index, end request index)
    held0 = {}
    for ci, call in enumerate(calls):
        a = sim.nreq
        items, exc, closed = _invoke(cl, sim, call, viol, ci, held0)
        evals += 1
        spans.append((ci, a, sim.nreq))
        if closed:
            probe("consumer_closed_midway")
        if exc is not None:
            viol.append({"class": "faultfree_exception", "sig": f"{call['kind']}|{type(exc).__name__}",
                         "detail": f"call {ci} raised {exc!r} without any injected fault"})
            continue
        got = _tuples(items)
        if closed:
            if not _submultiset(got, refs[ci]):
                viol.append({"class": "faultfree_wrong_listing", "sig": f"{call['kind']}|partial_not_subset",
                             "detail": f"call {ci}: partial {got} not within reference {refs[ci]}"})
        elif got != refs[ci]:
            missing = [x for x in refs[ci] if x not in got]
            extra = [x for x in got if x not in refs[ci]]
            what = "missing" if missing and not extra else "extra" if extra and not missing else "differs"
            if not missing and not extra:
                what = "duplicates"
            viol.append({"class": "faultfree_wrong_listing", "sig": f"{call['kind']}|{what}",
                         "detail": f"call {ci} {call}: missing={missing[:4]} extra={extra[:4]} n_ref={len(refs[ci])} n_got={len(got)}"})
        if sim.open_responses():
            viol.append({"class": "response_left_open", "sig": f"{call['kind']}|after_return",
                         "detail": f"{sim.open_responses()} responses open after the call returned"})
    nfree = sim.nreq
    reqclasses = [r["class"] for r in sim.reqlog]
    requrls = [r["url"] for r in sim.reqlog]
    if not viol:
        # the caller repeats every call with the very same argument objects (filter, folder list): same listing again
        for ci, call in enumerate(calls):
            items, exc, _c = _invoke(cl, sim, dict(call, consume="all"), viol, ci, held0)
            evals += 1
            probe("repeat_with_same_argument_objects")
            if exc is not None or _tuples(items) != refs[ci]:
                viol.append({"class": "faultfree_wrong_listing", "sig": f"{call['kind']}|second_run_same_arguments",
                             "detail": f"call {ci} {call} repeated with the same argument objects: exc={exc!r}, {len(items)} items, reference {len(refs[ci])}"})
    if not viol and len(calls) >= 2 and case.get("interleave"):
        # two listings of the history consumed alternately on one (fresh) client: each still yields its own complete listing
        simz, clz = _new(lib, log, case.get('status_attr', True))
        ia, ib = case["interleave"]["pair"]
        for (items, exc), ci in zip(_interleaved(clz, calls, [ia, ib], case["interleave"]["pattern"], {}), (ia, ib)):
            evals += 1
            probe("two_listings_consumed_alternately")
            if exc is not None or _tuples(items) != refs[ci]:
                viol.append({"class": "faultfree_wrong_listing", "sig": f"{calls[ci]['kind']}|interleaved_with_another_listing",
                             "detail": f"call {ci} {calls[ci]} consumed alternately with call {ib if ci == ia else ia}: exc={exc!r}, {len(items)} items, reference {len(refs[ci])}"})
        if simz.open_responses():
            viol.append({"class": "response_left_open", "sig": "interleaved|after_return", "detail": f"{simz.open_responses()} responses open after two interleaved listings"})
    fresh_n = []
    for ci, call in enumerate(calls):  # request budget of a healthy retry: what a fresh client needs for this call alone
        sim_f, cl_f = _new(lib, None, case.get('status_attr', True))
        _invoke(cl_f, sim_f, dict(call, consume="all"), [], ci)
        fresh_n.append(sim_f.nreq)
    log.ev("faultfree", nfree, len(viol))
    if viol:
        # fault enumeration on a tree that is already wrong fault-free would only repeat the same defect
        return _rec(case, viol, log, evals, faults, probes, nontriv, nfree)

    # ---- fault enumeration
    fspec = case["faults"]
    if fspec["mode"] == "list":
        plan = [tuple(x) for x in fspec["list"]]
    else:
        plan = [(k, kind) for k in range(nfree) for kind in fspec["kinds"]]
        cap = fspec.get("cap", 80) * 6
        if len(plan) > cap:
            r2 = random.Random(fspec["pick"])
            plan = sorted(r2.sample(plan, cap))
        frac2 = fspec.get("second", 0)
        if frac2:
            # a seeded share of the single faults is followed by a second fault somewhere inside the caller's retry
            r3 = random.Random(fspec["pick"] * 7919 + 13)
            plan2 = []
            for (k, kind) in plan:
                if r3.random() < frac2:
                    plan2.append((k, kind, r3.randrange(0, 1 + max(fresh_n)), r3.choice(fspec["kinds"])))
                else:
                    plan2.append((k, kind))
            plan = plan2
    for ent in plan:
        k, kind = ent[0], ent[1]
        second = (ent[2], ent[3]) if len(ent) >= 4 else None
        if k >= nfree:
            continue
        ci = next(c for c, a, b in spans if a <= k < b) if any(a <= k < b for _, a, b in spans) else None
        if ci is None:
            continue
        call = calls[ci]
        sim, cl = _new(lib, log, case.get('status_attr', True))
        sim.fault = {k: kind}
        v_before = len(viol)
        # history before the faulted call (healthy)
        held = {}
        for cj in range(ci):
            _invoke(cl, sim, calls[cj], viol, cj, held)
        items, exc, closed = _invoke(cl, sim, call, viol, ci, held)
        evals += 1
        fired = bool(sim.fired)
        rclass = reqclasses[k]
        tagsig = f"{kind}|{rclass}"
        if not fired:
            # the consumer closed the generator before request k, or an earlier violation changed the request sequence
            continue
        faults[kind] = faults.get(kind, 0) + 1
        nontriv.add(f"{call['kind']}|{rclass}|{kind}|{'k>1' if k > 1 else 'k<=1'}|{'mp' if multi_page else 'sp'}|{'deep' if depth2 else 'flat'}")
        if rclass == "token":
            probe("fault_on_token")
        elif rclass == "site":
            probe("fault_on_site")
        elif rclass == "folder_by_path":
            probe("fault_on_folder_by_path")
        elif rclass == "children_next":
            probe("fault_on_next_page")
        if rclass in ("children", "children_next") and requrls[:k].count(requrls[k]) >= 1:
            probe("fault_on_folder_pass")
        furl = sim.fired[0][3]
        focus = dict(case, faults={"mode": "list", "list": [list(ent)]})
        _judge(kind, rclass, k, furl, exc, items, refs[ci], viol, tagsig, focus, probe)
        if sim.open_responses():
            viol.append({"class": "response_left_open", "sig": tagsig, "case": focus,
                         "detail": f"k={k}: {sim.open_responses()} of {len(sim.responses)} responses not closed when the call ended"})
        # ---- fault sequence: the fault has not healed yet; the caller's retry on the same client meets a second one
        if second is not None:
            j, kind2 = second
            nf0 = len(sim.fired)
            sim.fault = {sim.nreq + j: kind2}
            sim.nresp_pages = 0
            items_b, exc_b, _ = _invoke(cl, sim, dict(call, consume="all"), viol, ci, held)
            evals += 1
            if len(sim.fired) > nf0:
                _k2, _kd, rclass2, furl2 = sim.fired[-1]
                faults[kind2] = faults.get(kind2, 0) + 1
                probe("second_fault_during_retry")
                if rclass2 == "token":
                    probe("second_fault_on_token")
                tag2 = f"{kind2}|{rclass2}|after:{kind}|{rclass}"
                nontriv.add(f"2nd|{call['kind']}|{rclass}|{kind}|{rclass2}|{kind2}")
                _judge(kind2, rclass2, f"{k}+{j}", furl2, exc_b, items_b, refs[ci], viol, tag2, focus, probe)
                tagsig = tag2
            elif exc_b is not None or _tuples(items_b) != refs[ci]:
                viol.append({"class": "no_recovery", "sig": tagsig + "|retry_before_second_fault", "case": focus,
                             "detail": f"k={k}: healthy retry (second fault at +{j} never reached) gave exc={exc_b!r}, {len(items_b)} items"})
            if sim.open_responses():
                viol.append({"class": "response_left_open", "sig": tagsig, "case": focus,
                             "detail": f"k={k}+{j}: {sim.open_responses()} responses not closed after the second faulted call"})
        # ---- faults stop: the same call on the same client must now return the complete listing
        sim.fault = {}
        sim.nresp_pages = 0  # the server restarts its page-size policy, as for the fresh client that defines the request budget
        before = sim.nreq
        call2 = dict(call, consume="all")
        items2, exc2, _ = _invoke(cl, sim, call2, viol, ci, held)
        evals += 1
        used = sim.nreq - before
        a, b = spans[ci][1], spans[ci][2]
        if exc2 is not None:
            viol.append({"class": "no_recovery", "sig": tagsig + "|" + type(exc2).__name__, "case": focus,
                         "detail": f"k={k}: retry over a healthy transport raised {exc2!r}"})
        else:
            if _tuples(items2) != refs[ci]:
                viol.append({"class": "no_recovery", "sig": tagsig + "|wrong_listing", "case": focus,
                             "detail": f"k={k}: retry returned {len(items2)} items, reference has {len(refs[ci])}"})
            if used > fresh_n[ci]:
                viol.append({"class": "no_recovery", "sig": tagsig + "|too_many_requests", "case": focus,
                             "detail": f"k={k}: retry used {used} requests, a fresh client needs {fresh_n[ci]} for the whole call"})
        # later calls of the history still behave
        for cj in range(ci + 1, len(calls)):
            itj, excj, closedj = _invoke(cl, sim, calls[cj], viol, cj, held)
            evals += 1
            if excj is not None or (not closedj and _tuples(itj) != refs[cj]):
                viol.append({"class": "history_after_fault", "sig": f"{tagsig}|then:{calls[cj]['kind']}", "case": focus,
                             "detail": f"k={k}: call {cj} after a recovered fault: exc={excj!r}"})
        log.ev("fault-run", k, kind, type(exc).__name__ if exc else None, len(items), used, len(viol) - v_before)
    return _rec(case, viol, log, evals, faults, probes, nontriv, nfree)


def _rec(case, viol, log, evals, faults, probes, nontriv, nfree):
    seen = set()
    out = []
    for v in viol:
        key = (v["class"], v["sig"])
        if key in seen:
            continue
        seen.add(key)
        out.append(v)
    ts = [it for d in case["lib"]["drives"].values() for _p, it in _all_files(d)]
    if any("." in (it.get("created") or "") or "." in (it.get("modified") or "") for it in ts):
        probes["fractional_timestamp"] = probes.get("fractional_timestamp", 0) + 1
    return {"violations": out, "digest": log.digest(), "steps": log.n, "evals": evals, "faults": faults, "probes": probes,
            "nontrivial": sorted(nontriv), "states": [f"{nfree}|{len(out)}|{len(nontriv)}"],
            "summary": {"requests_fault_free": nfree, "fault_runs": sum(faults.values())}}


# ----------------------------------------------------------------------------------------------- shrinking
def _prune(items, path):
    """yield copies of the tree with one node removed"""
    for i, it in enumerate(items):
        yield items[:i] + items[i + 1:]
    for i, it in enumerate(items):
        if it["kind"] == "folder":
            for sub in _prune(it["children"], path + [i]):
                c = dict(it, children=sub)
                yield items[:i] + [c] + items[i + 1:]


def shrink(case):
    # 0. a single fault instead of a sequence
    if case["faults"]["mode"] == "list" and any(len(e) >= 4 for e in case["faults"]["list"]):
        c = copy.deepcopy(case)
        c["faults"]["list"] = [e[:2] for e in c["faults"]["list"]]
        yield c
    elif case["faults"].get("second"):
        c = copy.deepcopy(case)
        c["faults"]["second"] = 0
        yield c
    # 1. fewer calls
    if len(case["calls"]) > 1:
        for i in range(len(case["calls"])):
            c = copy.deepcopy(case)
            del c["calls"][i]
            if c.get("interleave"):
                pr = [j - (j > i) for j in c["interleave"]["pair"] if j != i]
                c["interleave"] = dict(c["interleave"], pair=pr) if len(pr) == 2 else None
            if c["faults"]["mode"] == "list":
                c["faults"] = _reenum(case)
            yield c
    # 2. simpler paging
    if case["lib"]["pages"] != [100]:
        c = copy.deepcopy(case)
        c["lib"]["pages"] = [100]
        c["faults"] = _reenum(case)
        yield c
    # 3. fewer drives
    for d in list(case["lib"]["drives"]):
        if d and not any(cl.get("drive") == d for cl in case["calls"]):
            c = copy.deepcopy(case)
            del c["lib"]["drives"][d]
            yield c
    # 4. remove tree nodes (request indices shift, so re-enumerate the recorded kinds)
    for d, tree in case["lib"]["drives"].items():
        for sub in _prune(tree, []):
            c = copy.deepcopy(case)
            c["lib"]["drives"][d] = copy.deepcopy(sub)
            c["faults"] = _reenum(case)
            yield c
    # 5. simpler filters
    for i, cl in enumerate(case["calls"]):
        for key in list((cl.get("filter") or {}).keys()):
            c = copy.deepcopy(case)
            del c["calls"][i]["filter"][key]
            c["faults"] = _reenum(case)
            yield c
        if cl.get("consume") not in (None, "all"):
            c = copy.deepcopy(case)
            c["calls"][i]["consume"] = "all"
            yield c
    # 6. single fault kinds
    if case["faults"]["mode"] == "enumerate" and len(case["faults"]["kinds"]) > 1:
        for kd in case["faults"]["kinds"]:
            c = copy.deepcopy(case)
            c["faults"]["kinds"] = [kd]
            yield c


def _reenum(case):
    f = case["faults"]
    if f["mode"] == "list":
        kinds = sorted({e[1] for e in f["list"]} | {e[3] for e in f["list"] if len(e) >= 4})
        return {"mode": "enumerate", "kinds": kinds, "cap": 200, "pick": 1, "second": 1.0 if any(len(e) >= 4 for e in f["list"]) else 0}
    return dict(f)
