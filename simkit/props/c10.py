"""C10 -- archive members come out as themselves: right bytes, name, order (engine fssim, DESIGN.md 3.C10)."""
from __future__ import annotations

import copy
import io
import os
import random
import tarfile
import tempfile
import zipfile

from .. import archgen, canon, corpus
from .. import kernel as K

ID = "C10"
ENGINE = "fssim"
LEVEL = "fault_enumeration"
BUDGET = {"quick": 45, "thorough": 900}
RUN_TIMEOUT = 120
SELFTEST_PAIRS = {"quick": 10, "thorough": 30}
PROBES = ["7z_per_file_layout", "7z_mixed_groups", "7z_encoded_header", "7z_lzma", "7z_copy", "zip_stored", "tar_compressed", "empty_member",
          "directory_member", "hidden_or_unsupported_member", "prepack_fault", "postpack_flip_zip", "postpack_flip_tar", "postpack_flip_7z_per_file", "member_multi_result",
          "member_fixture_doc", "zero_members", "earlier_archive_in_same_process", "same_basename_twice_in_archive"]
RULE = ("one run = one archive built by a reference writer (zipfile / tarfile / independent 7z writer; every layout) from 0-8 member "
        "documents, read fault-free against the per-member reference model, then re-built once per member k with that member "
        "faulted (pre-pack: truncate / flips / foreign bytes / empty / unsupported / encrypted; post-pack flip inside its data for ZIP, TAR); "
        "distinct non-trivial = (format, layout, coder, member count class, fault kind, position class of k) with >= 2 members")
ASSUMPTIONS = [
    "reference = the library's own per-format extractor run on the isolated member bytes with path 'A.ext!/member' (C10 is about the archive layer, not about the member parsers)",
    "supportedness of a member name is taken from is_supported_file (decided by C07); hidden / __MACOSX / nested-archive / directory / oversize rules are re-stated independently",
    "the 7z writer is independent of the repo's reader but home-made (no 7z binary in the sandbox); validated by round trips and the real 7-Zip fixture",
    "post-pack faults are not applied to solid 7z or compressed TAR streams, where damage legitimately spreads",
]
COMPONENTS = {"real": ["archive_extractor.read_archive and the three member loops", "util/sevenzip reader", "zipfile, tarfile, lzma (stdlib)", "member extractors"],
              "stub": ["archive writers (zipfile/tarfile used as reference packers, own 7z writer)", "the fault applied to member k"]}

_fixture_docs: dict[str, bytes] = {}
NESTED = (".zip", ".tar", ".tar.gz", ".tgz", ".tar.bz2", ".tbz2", ".tar.xz", ".txz", ".7z")


def warm():
    corpus.warm_all(extract=True)
    c = corpus.corpus()
    for n in ["fx/plain_text/plain.csv", "fx/html/sample.html", "fx/mails/basic_email.eml", "fx/modern_ms/mwe.xlsx", "fx/open_office/sample_document.odt",
              "fx/legacy_ms/mwe.xls", "gen/a.rtf", "gen/a.mbox", "fx/pdf/two_tables_horizontal.pdf", "fx/epub/sample.epub",
              "fx/legacy_ms/password_protected/docx-password-protected-pw123.docx", "fx/open_office/password_protected/odt-password-protected-pw123.odt"]:
        if n in c:
            _fixture_docs[n] = c[n]
    tempfile.tempdir = os.path.join(K.sandbox_root(), "c10tmp")
    os.makedirs(tempfile.tempdir, exist_ok=True)


# ------------------------------------------------------------------------------------------------ generation
STEMS = ["report", "data set", "Notes", "a", "ünï", "x-1", "UPPER", "v1.2", "readme", "2024_q1", "report_一", "rĀga", "日本語", "a\u0100b", "emoji_😀",
         # ordinary names that begin like another container's signature (a plain TAR starts with its first member's name)
         "BZ2024 budget", "BZh9", "PK-list", "7zip notes"]
DIRS = ["", "", "docs/", "docs/sub/", "a b/", "Ünï/", "./", "./docs/"]


def classify_harness(rec, payload):
    """a run that had to be killed (wall cap) says nothing about this property: termination is C01's"""
    if rec.get("_harness") == "timeout" or (rec.get("_harness") == "crash" and rec.get("signal") in (9, 24)):
        return {"ignore": True, "reason": "killed_by_budget_termination_is_C01"}
    return None


def gen_case(rng: random.Random, tier: str) -> dict:
    fmt = rng.choice(["zip", "zip", "tar", "tar.gz", "tar.bz2", "tar.xz", "7z", "7z", "7z"])
    n = rng.choice([0, 1, 2, 3, 3, 4, 5, 6, 8])
    members, used = [], set()
    for i in range(n):
        r = rng.random()
        d = rng.choice(DIRS)
        if r < 0.08:
            name = (d + rng.choice(STEMS)).rstrip("/")
            if name in used or not name:
                continue
            used.add(name)
            members.append({"name": name, "kind": "dir"})
            continue
        if r < 0.16:
            kind, doc = "file", rng.choice(["bin", "exe", "png", "xml", "xpdl", "svg", "css", "js", "py", "ics", "vcf", "log", "yaml", "sql", "c", "sh"])
        elif r < 0.22:
            kind, doc = "file", rng.choice(["zip", "7z", "tgz"])
        else:
            kind, doc = "file", rng.choice(["txt", "csv", "html", "md", "json", "tsv", "docx", "rtf", "eml", "TXT", "htm"])
        stem = rng.choice(STEMS)
        if rng.random() < 0.07:
            stem = "." + stem
        if rng.random() < 0.05:
            d = "__MACOSX/" + d
        name = f"{d}{stem}_{i}.{doc}"
        used.add(name)
        m = {"name": name, "kind": "file", "doc": doc, "token": f"TOK{i}x{rng.randrange(1000)}", "pad": rng.choice([0, 0, 50, 3000, 70000])}
        if rng.random() < 0.08:
            m["empty"] = True
        if rng.random() < 0.12 and _fixture_docs:
            fx = rng.choice(sorted(_fixture_docs))
            m = {"name": f"{d}{stem}_{i}{os.path.splitext(fx)[1]}", "kind": "file", "fixture": fx}
        members.append(m)
    plain_files = [m for m in members if m["kind"] == "file" and not m.get("fixture")]
    if plain_files and rng.random() < 0.3:
        # the same bytes under the same base name in another directory: results must still be labelled with their own path
        src = rng.choice(plain_files)
        dup = dict(src, name=rng.choice(["dup/", "other dir/", "z/y/"]) + os.path.basename(src["name"]))
        members.insert(rng.randrange(len(members) + 1), dup)
    spec = {"fmt": fmt, "members": members}
    if fmt.startswith("tar"):
        spec["tar_format"] = rng.choice(["pax", "pax", "gnu", "gnu", "ustar"])  # the three header dialects tarfile (and GNU tar / bsdtar) write
    if fmt == "zip":
        spec["zip_method"] = rng.choice(["stored", "deflated"])
    if fmt == "7z":
        layout = rng.choice(["solid", "per_file", "per_file", "groups"])
        o = {"layout": layout, "method": rng.choice(["copy", "lzma", "lzma2"]), "encoded_header": rng.random() < 0.35,
             "crc": rng.random() < 0.7, "attrs": rng.random() < 0.7}
        if layout == "groups":
            nreal = sum(1 for m in members if m["kind"] == "file" and not m.get("empty"))
            idx = list(range(nreal))
            groups, i = [], 0
            while i < len(idx):
                k = rng.choice([1, 1, 2, 3])
                groups.append(idx[i:i + k])
                i += k
            o["groups"] = groups
        if not members:
            o["empty_standard"] = rng.random() < 0.6  # 7-Zip's own form of an empty archive (no end header at all)
        spec["7z"] = o
    case = {"spec": spec, "faults": "enumerate", "fault_seed": rng.randrange(1 << 30), "path": "A" + archgen.ext_of(fmt)}
    plain_files = [m for m in members if m["kind"] == "file" and not m.get("fixture")]
    if plain_files and rng.random() < 0.3:
        # history: another archive read earlier in the same process holds a member with the same base name and bytes
        pf = rng.choice(["zip", "tar", "tar.gz", "7z"])
        src = rng.choice(plain_files)
        pm = [dict(src, name=rng.choice(["", "earlier/"]) + os.path.basename(src["name"])),
              {"name": "p_other.txt", "kind": "file", "doc": "txt", "token": "TOKprelude", "pad": 0}]
        case["prelude"] = {"spec": {"fmt": pf, "members": pm}, "path": "P" + archgen.ext_of(pf)}
    return case


def _mbytes(m: dict) -> bytes:
    if m.get("fixture"):
        return _fixture_docs[m["fixture"]]
    return archgen.member_bytes(m)


def _spec_with_raw(spec):
    """fixtures and faulted members travel as raw bytes"""
    s = copy.deepcopy(spec)
    for m in s["members"]:
        if m.get("fixture"):
            m["raw_b64"] = K.b64e(_fixture_docs[m["fixture"]])
    return s


# ------------------------------------------------------------------------------------------------ reference model
def _visible_supported(name: str, size: int, limit: int) -> bool:
    from sharepoint2text.parsing.router import is_supported_file
    base = os.path.basename(name)
    if base.startswith(".") or name.startswith("__MACOSX/"):
        return False
    if base.lower().endswith(NESTED):
        return False
    if not is_supported_file(base):
        return False
    if size > limit:
        return False
    return True


def _ref_member(name: str, data: bytes, apath: str):
    from sharepoint2text.parsing.router import get_extractor
    base = os.path.basename(name)
    out = []
    try:
        for r in get_extractor(base)(io.BytesIO(data), f"{apath}!/{name}"):
            out.append(_dig(r))
    except Exception:
        pass  # a member that fails half-way contributes the results it produced before failing
    return out


def _dig(r):
    m = r.get_metadata()
    return (m.filename, m.file_path, canon.digest(r.to_json()))


def _read(data: bytes, apath: str):
    from sharepoint2text.parsing.router import get_extractor
    try:
        return [_dig(r) for r in get_extractor(apath)(io.BytesIO(data), apath)], None
    except Exception as e:
        return None, e


# ------------------------------------------------------------------------------------------------ faults
PRE = ["trunc", "flip", "foreign", "empty", "unsupported_content", "encrypted_doc"]


def _prepack(kind: str, data: bytes, r: random.Random) -> bytes:
    if kind == "trunc":
        return data[: r.randrange(0, max(1, len(data)))]
    if kind == "flip":
        b = bytearray(data)
        for _ in range(r.choice([1, 3, 20])):
            if b:
                b[r.randrange(len(b))] ^= 1 << r.randrange(8)
        return bytes(b)
    if kind == "foreign":
        return bytes(r.randrange(256) for _ in range(r.choice([1, 64, 2000])))
    if kind == "empty":
        return b""
    if kind == "unsupported_content":
        return b"\x7fELF\x02\x01\x01" + b"\0" * 64
    if kind == "encrypted_doc":
        return _fixture_docs.get("fx/legacy_ms/password_protected/docx-password-protected-pw123.docx", b"\xd0\xcf\x11\xe0" + b"\0" * 600)
    return data


def _data_region(fmt: str, arc: bytes, name: str):
    if fmt == "zip":
        with zipfile.ZipFile(io.BytesIO(arc)) as z:
            for info in z.infolist():
                if info.filename == name and not info.is_dir():
                    o = info.header_offset
                    nl = int.from_bytes(arc[o + 26:o + 28], "little")
                    el = int.from_bytes(arc[o + 28:o + 30], "little")
                    return o + 30 + nl + el, info.compress_size
    if fmt == "tar":
        with tarfile.open(fileobj=io.BytesIO(arc), mode="r:") as t:
            for m in t.getmembers():
                if m.name == name and m.isreg():
                    return m.offset_data, m.size
    return None


# ------------------------------------------------------------------------------------------------ execution
def run_case(case: dict) -> dict:
    from sharepoint2text.parsing.extractors import archive_extractor as ae
    from sharepoint2text.parsing.exceptions import ExtractionError
    log = K.EventLog()
    log.ev("case", K.h64(K.jdump(case)))
    viol, probes, faults, nontriv = [], {}, {}, set()
    spec = case["spec"]
    fmt = spec["fmt"]
    apath = case["path"]
    limit = min(ae._config.max_memory_size, ae.MAX_ARCHIVE_FILE_SIZE)
    members = spec["members"]
    o7 = spec.get("7z", {})

    def probe(n):
        probes[n] = probes.get(n, 0) + 1

    if fmt == "7z":
        probe({"per_file": "7z_per_file_layout", "groups": "7z_mixed_groups"}.get(o7.get("layout"), "7z_solid"))
        if o7.get("encoded_header"):
            probe("7z_encoded_header")
        probe("7z_" + o7.get("method", "lzma2"))
    if fmt == "zip" and spec.get("zip_method") == "stored":
        probe("zip_stored")
    if fmt in ("tar.gz", "tar.bz2", "tar.xz"):
        probe("tar_compressed")
    if not members:
        probe("zero_members")
    if any(m.get("empty") for m in members):
        probe("empty_member")
    if any(m["kind"] == "dir" for m in members):
        probe("directory_member")
    if any(m.get("fixture") for m in members):
        probe("member_fixture_doc")

    files = [m for m in members if m["kind"] == "file"]
    datas = {m["name"]: _mbytes(m) for m in files}
    refs = {}
    for m in files:
        nm = m["name"]
        refs[nm] = _ref_member(nm, datas[nm], apath) if _visible_supported(nm, len(datas[nm]), limit) else []
        if not _visible_supported(nm, len(datas[nm]), limit):
            probe("hidden_or_unsupported_member")
        if len(refs[nm]) > 1:
            probe("member_multi_result")
    layout = f"{fmt}|{o7.get('layout', '-')}|{o7.get('method', spec.get('zip_method', '-'))}|{'eh' if o7.get('encoded_header') else '-'}"
    ncls = "0" if not files else "1" if len(files) == 1 else "2-3" if len(files) <= 3 else "4+"
    evals = 0

    if case.get("prelude"):
        probe("earlier_archive_in_same_process")
        pa = archgen.build(case["prelude"]["spec"])
        pg, pe = _read(pa, case["prelude"]["path"])
        pexp = [x for m in case["prelude"]["spec"]["members"] for x in (_ref_member(m["name"], archgen.member_bytes(m), case["prelude"]["path"])
                                                                        if _visible_supported(m["name"], len(archgen.member_bytes(m)), limit) else [])]
        evals += 1
        if pe is None and pg != pexp:
            viol.append({"class": "faultfree_members_wrong", "sig": f"prelude|{case['prelude']['spec']['fmt']}", "detail": f"prelude archive: got {pg[:4]} expected {pexp[:4]}"})
    if len({os.path.basename(m["name"]) for m in files}) < len(files):
        probe("same_basename_twice_in_archive")
    # ---- fault-free
    arc = archgen.build(_spec_with_raw(spec))
    got, exc = _read(arc, apath)
    evals += 1
    expected = [x for m in files for x in refs[m["name"]]]
    log.ev("faultfree", len(arc), len(expected), None if got is None else len(got), type(exc).__name__ if exc else None)
    if exc is not None:
        viol.append({"class": "faultfree_archive_failed", "sig": f"{layout}|{type(exc).__name__}",
                     "detail": f"well-formed {fmt} archive of {len(files)} members raised {exc!r} (cause {getattr(exc, '__cause__', None)!r})"})
    elif got != expected:
        what = _diffkind(got, expected, files, refs)
        viol.append({"class": "faultfree_members_wrong", "sig": f"{layout}|{what}",
                     "detail": f"{fmt} {o7}: got {[(g[0], g[2][:6]) for g in got][:8]} expected {[(g[0], g[2][:6]) for g in expected][:8]}"})
    if len(files) >= 2:
        nontriv.add(f"{layout}|{ncls}|faultfree")
    if viol:
        return _rec(viol, log, evals, faults, probes, nontriv)

    # ---- one member corrupted at a time
    fr = random.Random(case["fault_seed"])
    plan = case["faults"]
    if plan == "enumerate":
        plan = []
        for k, m in enumerate(files):
            plan.append([k, fr.choice(PRE), fr.randrange(1 << 30)])
            if fmt in ("zip", "tar") and len(datas[m["name"]]) > 0:
                plan.append([k, "postflip", fr.randrange(1 << 30)])
            if fmt == "7z" and (spec.get("7z") or {}).get("layout") == "per_file" and len(datas[m["name"]]) > 0 and len(files) >= 2:
                plan.append([k, "postflip7z", fr.randrange(1 << 30)])  # one folder per file: damage to one packed stream is local by construction
    for k, kind, fseed in plan:
        if k >= len(files):
            continue
        r = random.Random(fseed)
        m = files[k]
        nm = m["name"]
        spec2 = _spec_with_raw(spec)
        tgt = [x for x in spec2["members"] if x["kind"] == "file"][k]
        alt_k = None
        if kind == "postflip7z":
            # the packed stream of this member = what the same writer produces for an archive holding this member alone
            one = dict(spec2, members=[tgt])
            single = archgen.build(one)
            enc = single[32:32 + int.from_bytes(single[12:20], "little")]
            pos = arc.find(enc, 32) if enc else -1
            base = os.path.basename(nm)
            if pos < 0 or arc.count(enc) != 1 or sum(1 for x in files if os.path.basename(x["name"]) == base) != 1:
                continue  # (two members with identical bytes: the packed stream cannot be attributed to this one)
            b = bytearray(arc)
            b[pos + r.randrange(len(enc))] ^= 1 << r.randrange(8)
            arc2 = bytes(b)
            probe("postpack_flip_7z_per_file")
            faults[kind] = faults.get(kind, 0) + 1
            got2, exc2 = _read(arc2, apath)
            evals += 1
            focus = dict(case, faults=[[k, kind, fseed]])
            log.ev("fault", k, kind, None if got2 is None else len(got2), type(exc2).__name__ if exc2 else None)
            if exc2 is not None:
                viol.append({"class": "corrupt_member_aborts_archive", "sig": f"{fmt}|{kind}|{type(exc2).__name__}", "case": focus,
                             "detail": f"member {k} ({nm}): one bit of its own packed stream flipped (one folder per file): read_archive raised {exc2!r}; other members lost"})
            else:
                # whatever the damaged member yields (nothing, or text decoded from damaged bytes: 7z CRCs are not this property's business),
                # every other member comes out as before
                others_exp = [x for j, mm in enumerate(files) if j != k for x in refs[mm["name"]]]
                others_got = [g for g in got2 if g[0] != base]
                if others_got != others_exp:
                    viol.append({"class": "corrupt_member_not_contained", "sig": f"{fmt}|{kind}|other_members_changed", "case": focus,
                                 "detail": f"member {k} ({nm}) damaged in its own packed stream: other members {len(others_got)} results, expected {len(others_exp)}"})
            continue
        if kind == "postflip":
            reg = _data_region(fmt, arc, nm)
            if not reg or reg[1] <= 0:
                continue
            b = bytearray(arc)
            off = reg[0] + r.randrange(reg[1])
            b[off] ^= 1 << r.randrange(8)
            arc2 = bytes(b)
            probe("postpack_flip_" + fmt)
            if fmt == "tar":
                try:
                    with tarfile.open(fileobj=io.BytesIO(arc2), mode="r:") as t:
                        mm = [x for x in t.getmembers() if x.name == nm][0]
                        newdata = t.extractfile(mm).read()
                    alt_k = _ref_member(nm, newdata, apath) if _visible_supported(nm, len(newdata), limit) else []
                except Exception:
                    alt_k = []
            else:
                alt_k = refs[nm]  # a ZIP member either fails its CRC (nothing) or is unaffected (flip in slack)
        else:
            newdata = _prepack(kind, datas[nm], r)
            tgt["raw_b64"] = K.b64e(newdata)
            arc2 = archgen.build(spec2)
            alt_k = _ref_member(nm, newdata, apath) if _visible_supported(nm, len(newdata), limit) else []
            probe("prepack_fault")
        faults[kind] = faults.get(kind, 0) + 1
        got2, exc2 = _read(arc2, apath)
        evals += 1
        pos = "first" if k == 0 else "last" if k == len(files) - 1 else "middle"
        if len(files) >= 2:
            nontriv.add(f"{layout}|{ncls}|{kind}|{pos}")
        focus = dict(case, faults=[[k, kind, fseed]])
        log.ev("fault", k, kind, None if got2 is None else len(got2), type(exc2).__name__ if exc2 else None)
        if exc2 is not None:
            viol.append({"class": "corrupt_member_aborts_archive", "sig": f"{fmt}|{kind}|{type(exc2).__name__}", "case": focus,
                         "detail": f"member {k} ({nm}) {kind}: read_archive raised {exc2!r} cause={getattr(exc2, '__cause__', None)!r}; other members lost"})
            continue
        ok = False
        for alt in ([alt_k[:i] for i in range(len(alt_k), -1, -1)] if alt_k else [[]]):
            exp2 = [x for j, mm in enumerate(files) for x in (alt if j == k else refs[mm["name"]])]
            if got2 == exp2:
                ok = True
                break
        if not ok:
            exp2 = [x for j, mm in enumerate(files) for x in ([] if j == k else refs[mm["name"]])]
            others_got = [g for g in got2 if g[1] != f"{apath}!/{nm}"]
            what = "other_members_affected" if others_got != exp2 else "faulted_member_wrong_result"
            viol.append({"class": "corrupt_member_not_contained", "sig": f"{fmt}|{kind}|{what}", "case": focus,
                         "detail": f"member {k} ({nm}) {kind}: got {[(g[0], g[2][:6]) for g in got2][:8]} expected others {[(g[0], g[2][:6]) for g in exp2][:8]}"})
    return _rec(viol, log, evals, faults, probes, nontriv)


def _diffkind(got, expected, files, refs):
    if len(got) < len(expected):
        gs = set(got)
        missing = [e for e in expected if e not in gs]
        if missing and all(not refs_nonempty(files, refs, e) for e in missing):
            return "missing_empty_file_result"
        return "missing_results"
    if len(got) > len(expected):
        return "extra_results"
    if sorted(got) == sorted(expected):
        return "order_differs"
    if [g[:2] for g in got] == [e[:2] for e in expected]:
        return "right_names_wrong_content"
    return "wrong_names_or_paths"


def refs_nonempty(files, refs, e):
    for m in files:
        if e in refs[m["name"]]:
            return not m.get("empty")
    return True


def _rec(viol, log, evals, faults, probes, nontriv):
    seen, out = set(), []
    for v in viol:
        if (v["class"], v["sig"]) not in seen:
            seen.add((v["class"], v["sig"]))
            out.append(v)
    return {"violations": out, "digest": log.digest(), "steps": log.n, "evals": evals, "faults": faults, "probes": probes,
            "nontrivial": sorted(nontriv), "states": [log.digest()[:8]], "summary": {"evals": evals}}


# ------------------------------------------------------------------------------------------------ shrinking
def shrink(case):
    if case.get("prelude"):
        c = copy.deepcopy(case)
        del c["prelude"]
        yield c
    spec = case["spec"]
    ms = spec["members"]
    files_idx = [i for i, m in enumerate(ms) if m["kind"] == "file"]
    focus = case["faults"] if isinstance(case["faults"], list) else None
    for i in range(len(ms)):
        if focus and ms[i]["kind"] == "file" and files_idx.index(i) == focus[0][0]:
            continue
        c = copy.deepcopy(case)
        del c["spec"]["members"][i]
        if spec["fmt"] == "tar" and not c["spec"]["members"] and ms:
            continue  # a violation seen on a TAR with members is not the empty-TAR case: do not shrink into it
        if focus and ms[i]["kind"] == "file" and files_idx.index(i) < focus[0][0]:
            c["faults"] = [[focus[0][0] - 1] + focus[0][1:]]
        if c["spec"].get("7z", {}).get("layout") == "groups":
            c["spec"]["7z"]["layout"] = "per_file"
            c["spec"]["7z"].pop("groups", None)
        yield c
    o = spec.get("7z")
    if o:
        for key, val in (("encoded_header", False), ("crc", False), ("attrs", False), ("method", "copy")):
            if o.get(key) != val:
                c = copy.deepcopy(case)
                c["spec"]["7z"][key] = val
                yield c
    for i, m in enumerate(ms):
        if m.get("pad"):
            c = copy.deepcopy(case)
            c["spec"]["members"][i]["pad"] = 0
            yield c
        if m.get("fixture"):
            c = copy.deepcopy(case)
            c["spec"]["members"][i] = {"name": os.path.splitext(m["name"])[0] + ".txt", "kind": "file", "doc": "txt", "token": f"TOKs{i}", "pad": 0}
            yield c
