"""C12 -- extraction cost is bounded by input size; explicit limits hold (engines iosim + fssim, DESIGN.md 3.C12)."""
from __future__ import annotations

import io
import os
import random
import resource
import shutil
import tarfile
import tempfile
import time
import zipfile

from .. import archgen, blockdev, corpus, fsseam, iosim
from .. import kernel as K

ID = "C12"
ENGINE = "iosim"
LEVEL = "exploration"
BUDGET = {"quick": 60, "thorough": 1200}
RUN_TIMEOUT = 150
SHRINK_TIMEOUT = 150
SELFTEST_PAIRS = {"quick": 10, "thorough": 30}
BUDGET_CLASSES = ("amplification_time", "amplification_memory")
MEM_BASE, MEM_PER_BYTE = 256 << 20, 64
CPU_BASE, CPU_PER_BYTE = 20.0, 100e-6
PROBES = ["limit_file_size_exact", "limit_file_size_disabled", "limit_file_grows_after_call", "limit_7z_archive_size", "limit_member_zip", "limit_member_tar",
          "limit_member_7z", "limit_member_duplicate_names", "limit_member_tar_hardlink_to_oversize", "amp_ods_repeat", "amp_odf_text_space_count", "amp_xlsx_dimension", "amp_entities", "amp_deep_nesting",
          "amp_ratio_member", "amp_mbox_many_from", "amp_7z_lying_unpack_size", "amp_pdf_object_loop", "amp_ole_nested_containers", "amp_count_field_fault", "memory_error_under_cap", "scaling_pair"]
RULE = ("limit runs: files / archives / members of size L-1, L, L+1 around every explicit limit (max_file_size incl. 0 and a file that grows between "
        "call and consumption, the 100 MiB 7z limit, the per-member knob N in ZIP/TAR/7z incl. duplicate names) with the I/O event log proving "
        "that refused or skipped data was never opened, decompressed or written; amplifier runs: small documents built to amplify (ODS repeats, "
        "text:s counts, declared dimensions, entities, deep nesting, extreme-ratio members, many-From mboxes) and count/length-field faults on "
        "the corpus, under RLIMIT_AS / CPU budgets scaled by input size; distinct non-trivial = (family, parameter class, outcome class)")
ASSUMPTIONS = [
    "budget for amplifier families: peak additional RSS <= 256 MiB + 64*U and CPU <= 20 s + 100 us*U, U = max(len(input), declared uncompressed size), calibrated with >= 8x headroom over the fault-free corpus; for blind count-field faults 1 GiB + 256*U and 40 s + 400 us*U (only runaway growth)",
    "RLIMIT_AS is set just above the memory bound: a runaway allocation surfaces as MemoryError (possibly wrapped) or a killed child; candidates are confirmed twice alone",
    "scaling oracle: a family at size n and 4n; flagged when the larger run needs >= 3 s CPU and more than 12x the smaller one (superlinear cost that the absolute budget is too generous to see)",
    "amplifiers that need a purpose-built document are generated in their simplest form only; the evidence lists which families ran",
    "decompression events are ZipFile.open / TarFile.extractfile / file writes under the private temp dir (audit log)",
]
COMPONENTS = {"real": ["sharepoint2text.read_file size guard", "archive_extractor size filters and 7z path", "util/sevenzip", "all extractors (amplifier and count-field runs)"],
              "stub": ["file sizes (sparse files)", "declared sizes / counts inside documents (amplifier generators, count-field faults)", "memory and CPU budgets (RLIMIT_AS, RLIMIT_CPU)"]}

_docs = {}


def warm():
    global _docs
    iosim.warm(measure_cpu=False)
    _docs = iosim.docs()
    import sharepoint2text  # noqa
    td = os.path.join(K.sandbox_root(), "c12-warm")
    os.makedirs(td, exist_ok=True)
    old = tempfile.tempdir
    tempfile.tempdir = td
    try:
        b = archgen.build({"fmt": "7z", "members": [{"name": "w.txt", "doc": "txt", "token": "W"}]})
        from sharepoint2text.parsing.router import get_extractor
        list(get_extractor("w.7z")(io.BytesIO(b), "w.7z"))
    finally:
        tempfile.tempdir = old


# ------------------------------------------------------------------------------------------------ generation
BIGS = [101, 5000, 1_000_000, 50_000_000, 999_999_999]


def gen_case(rng: random.Random, tier: str) -> dict:
    r = rng.random()
    if r < 0.30:
        kind = rng.choice(["file_size", "file_size", "file_grows", "7z_size", "member", "member", "member", "member_dup"])
        c = {"mode": "limit", "kind": kind}
        if kind in ("file_size", "file_grows"):
            c["L"] = rng.choice([1, 1000, 1000, 4096, 100 * 1024 * 1024, 0])
            c["delta"] = rng.choice([-1, 0, 1, 1, 2])
            c["ext"] = rng.choice(["txt", "csv", "md", "json", "html"])
        elif kind == "7z_size":
            c["delta"] = rng.choice([0, 1])
        else:
            c["fmt"] = rng.choice(["zip", "tar", "tar.gz", "7z", "7z"])
            c["N"] = rng.choice([200, 1000, 5000])
            c["delta"] = rng.choice([0, 1, 1, 7])
            c["layout"] = rng.choice(["solid", "per_file"])
            c["method"] = rng.choice(["copy", "lzma2", "lzma"])
            c["pos"] = rng.choice(["first", "middle", "last"])
            c["only_big"] = rng.random() < 0.2
            c["link_to_big"] = rng.random() < 0.4
        return c
    if r < 0.62:
        fam = rng.choice(["ods_repeat", "ods_repeat", "ods_repeat", "text_space", "xlsx_dimension", "entities", "deep", "ratio_member", "mbox_from", "lying_7z", "pdf_loop", "pdf_loop", "ole_nested"])
        c = {"mode": "amp", "family": fam}
        if fam == "ods_repeat":
            c.update({"row_empty": rng.random() < 0.5, "cell_empty": rng.random() < 0.5, "cell_repeat": rng.choice([1, 3, 100, 101] + BIGS),
                      "row_repeat": rng.choice([1, 2, 100, 101] + BIGS), "empty_cell_repeat": rng.choice([1, 50, 100, 101, 16384])})
        elif fam == "text_space":
            c.update({"fmt": rng.choice(["odt", "ods", "odp"]), "count": rng.choice(BIGS)})
        elif fam == "xlsx_dimension":
            c.update({"ref": rng.choice(["A1:XFD1048576", "A1:ZZ100000", "A1:C3", "A1:XFD10"])})
        elif fam == "entities":
            c.update({"target": rng.choice(["docx", "odt", "html", "epub"]), "depth": rng.choice([3, 5, 5, 6, 9]), "enc": rng.choice(["utf-8", "utf-8", "utf-16", "utf-16-be"])})
        elif fam == "deep":
            c.update({"fmt": rng.choice(["html", "rtf", "docx", "json", "odt"]), "depth": rng.choice([200, 900, 3000, 20000])})
            if c["fmt"] in ("html", "rtf", "json"):
                # tag soup: the nesting never closes, closes with the wrong tags, or only closes
                c["shape"] = rng.choice(["balanced", "balanced", "unclosed", "unmatched_end", "stray_end"])
                if c["shape"] != "balanced":
                    c["depth"] = rng.choice([900, 3000, 20000, 30000])
            if tier == "quick" and c["fmt"] == "docx" and rng.random() < 0.85:
                c["depth"] = rng.choice([200, 900])  # the deep variants hit a listed finding and cost ~30 s of CPU each
        elif fam == "ratio_member":
            c.update({"fmt": rng.choice(["tar.gz", "tar.xz", "7z", "zip"]), "mb": rng.choice([5, 40, 150]), "ext": rng.choice(["txt", "bin"])})
        elif fam == "pdf_loop":
            c.update({"variant": rng.choice(PDF_LOOPS)})
        elif fam == "ole_nested":
            c.update({"stream": rng.choice(["PowerPoint Document", "PowerPoint Document", "Pictures"]), "rtype": rng.choice(OLE_CONTAINER_TYPES),
                      "depth": rng.choice([300, 1400, 5600, 27000]), "shape": rng.choice(["nested", "nested", "overrun"])})
        elif fam == "lying_7z":
            c.update({"mb": rng.choice([300, 500]) if tier != "quick" else 300, "method": rng.choice(["lzma", "lzma2"]), "declared": rng.choice([10, 1000])})
        else:
            c.update({"n": rng.choice([100, 5000, 30000])})
        return c
    if r < 0.70:
        fam = rng.choice(["mbox_from", "mbox_from", "deep_html", "deep_rtf", "deep_json", "deep_odt", "deep_docx", "soup_html", "deep_ppt", "deep_ppt_pictures", "deep_ppt_overrun", "epub_nav_soup", "html_rows", "docx_paragraphs", "rtf_paragraphs",
                          "odt_paragraphs", "csv_rows", "zip_members"])
        base = {"mbox_from": [20000, 30000], "deep_html": [100, 200], "deep_rtf": [150, 400], "deep_json": [200, 230], "deep_odt": [100, 200], "deep_docx": [60, 100], "soup_html": [2000, 4000], "deep_ppt": [700, 1400], "deep_ppt_pictures": [600, 1200], "deep_ppt_overrun": [400, 800], "epub_nav_soup": [1500, 3000],
                "html_rows": [3000, 6000], "docx_paragraphs": [3000, 6000], "rtf_paragraphs": [3000, 6000], "odt_paragraphs": [3000, 6000], "csv_rows": [20000, 50000],
                "zip_members": [400, 800]}[fam]
        return {"mode": "scaling", "family": fam, "n": rng.choice(base), "factor": 4}
    # count / length-field faults on the corpus (S2 numeric attributes and little-endian fields, S1 on OLE files)
    c = iosim.gen_case(rng, tier, fault_free_p=0.0, s2_bias=0.9, entries=["direct"], max_size=400_000)
    c["mode"] = "fault"
    data = _docs[c["doc"]]
    ops = []
    for _ in range(rng.choice([1, 1, 2])):
        if blockdev.is_zip(data):
            names = blockdev.zip_members(data)
            w = [5 if n.endswith((".xml", ".opf", ".rels", ".xhtml")) else 1 for n in names]
            k = rng.choices(range(len(names)), w)[0]
            ed = rng.choice([["num_attr", rng.randrange(1 << 20), rng.choice(blockdev.BIG + [5000, 1_048_576])],
                             ["xml_dup", rng.randrange(1 << 20), rng.choice([50, 2000])], ["xml_nest", rng.randrange(1 << 20), rng.choice([400, 3000])]])
            ops.append(["zip", k, ["edit", ed]])
        else:
            o = rng.randrange(max(1, len(data)))
            v = rng.choice(blockdev.BIG)
            w = rng.choice([2, 4])
            ops.append(["flip", [[o + i, b] for i in range(w) for b in range(8) if ((v >> (8 * i + b)) & 1) != ((data[o + i] if o + i < len(data) else 0) >> b) & 1][:32] or [[o, 0]]])
    c["ops"] = ops
    c["route"] = iosim.ext_of(c["doc"])
    return c


# ------------------------------------------------------------------------------------------------ amplifier documents
def build_amp(c) -> tuple[bytes, str, int]:
    """-> (document bytes, routing name, declared uncompressed size U)"""
    fam = c["family"]
    if fam == "ods_repeat":
        cell = '<table:table-cell table:number-columns-repeated="%d"%s/>' % (c["cell_repeat"], "" if c["cell_empty"] else ' office:value-type="string"')
        if not c["cell_empty"]:
            cell = '<table:table-cell table:number-columns-repeated="%d" office:value-type="string"><text:p>v</text:p></table:table-cell>' % c["cell_repeat"]
        cells = cell if not c["row_empty"] else '<table:table-cell table:number-columns-repeated="%d"/>' % c["empty_cell_repeat"]
        body = ('<office:spreadsheet><table:table table:name="S"><table:table-row><table:table-cell office:value-type="string"><text:p>head</text:p></table:table-cell></table:table-row>'
                '<table:table-row table:number-rows-repeated="%d">%s</table:table-row>'
                '<table:table-row><table:table-cell office:value-type="string"><text:p>tail</text:p></table:table-cell></table:table-row></table:table></office:spreadsheet>'
                % (c["row_repeat"], cells))
        d = corpus._odf("application/vnd.oasis.opendocument.spreadsheet", body)
        return d, "amp.ods", len(d)
    if fam == "text_space":
        sp = '<text:p>a<text:s text:c="%d"/>b</text:p>' % c["count"]
        if c["fmt"] == "odt":
            d = corpus._odf("application/vnd.oasis.opendocument.text", f"<office:text>{sp}</office:text>")
        elif c["fmt"] == "ods":
            d = corpus._odf("application/vnd.oasis.opendocument.spreadsheet", '<office:spreadsheet><table:table table:name="S"><table:table-row>'
                            f'<table:table-cell office:value-type="string">{sp}</table:table-cell></table:table-row></table:table></office:spreadsheet>')
        else:
            d = corpus._odf("application/vnd.oasis.opendocument.presentation", f'<office:presentation><draw:page draw:name="p1"><draw:frame><draw:text-box>{sp}</draw:text-box></draw:frame></draw:page></office:presentation>')
        return d, "amp." + c["fmt"], len(d)
    if fam == "xlsx_dimension":
        base = _docs["gen/ragged.xlsx"]
        with zipfile.ZipFile(io.BytesIO(base)) as z:
            sheet = z.read("xl/worksheets/sheet1.xml")
        sheet2 = sheet.replace(b"<sheetData>", b'<dimension ref="%s"/><sheetData>' % c["ref"].encode())
        names = blockdev.zip_members(base)
        k = names.index("xl/worksheets/sheet1.xml")
        out = io.BytesIO()
        with zipfile.ZipFile(io.BytesIO(base)) as zin, zipfile.ZipFile(out, "w", zipfile.ZIP_DEFLATED) as zo:
            for i, n in enumerate(names):
                zo.writestr(n, sheet2 if i == k else zin.read(n))
        d = out.getvalue()
        return d, "amp.xlsx", len(d)
    if fam == "entities":
        ents = '<!DOCTYPE lolz [<!ENTITY a0 "lollollollollollollollollollol">' + "".join(
            f'<!ENTITY a{i} "{("&a%d;" % (i - 1)) * 10}">' for i in range(1, c["depth"] + 1)) + "]>"
        ref = f"&a{c['depth']};"
        t = c["target"]
        enc = c.get("enc", "utf-8")

        def xml_bytes(text: str) -> bytes:
            # the same document in another encoding XML parsers accept (a byte-level search for "<!DOCTYPE" does not see it)
            if enc == "utf-8":
                return text.encode()
            text = text.replace('<?xml version="1.0"?>', '<?xml version="1.0" encoding="UTF-16"?>', 1)
            return text.encode("utf-16") if enc == "utf-16" else b"\xfe\xff" + text.encode("utf-16-be")
        if t == "html":
            d = (ents + f"<html><body><p>{ref}</p></body></html>").encode()
            return d, "amp.html", len(d)
        if t == "docx":
            doc = f'<?xml version="1.0"?>{ents}<w:document {corpus.W}><w:body><w:p><w:r><w:t>{ref}</w:t></w:r></w:p></w:body></w:document>'
            d = corpus._zip([("[Content_Types].xml", corpus.CT.encode()), ("_rels/.rels", corpus.RELS.encode()), ("word/document.xml", xml_bytes(doc)), ("docProps/core.xml", corpus.CORE.encode())])
            return d, "amp.docx", len(d)
        if t == "odt":
            content = f'<?xml version="1.0"?>{ents}<office:document-content {corpus.ODF_NS}><office:body><office:text><text:p>{ref}</text:p></office:text></office:body></office:document-content>'
            mt = "application/vnd.oasis.opendocument.text"
            d = corpus._zip([("mimetype", mt.encode()), ("content.xml", xml_bytes(content)), ("meta.xml", corpus.ODF_META.encode()), ("META-INF/manifest.xml", corpus.ODF_MANIFEST.format(mt=mt).encode())])
            return d, "amp.odt", len(d)
        base = _docs["gen/a.epub"]
        names = blockdev.zip_members(base)
        out = io.BytesIO()
        with zipfile.ZipFile(io.BytesIO(base)) as zin, zipfile.ZipFile(out, "w") as zo:
            for n in names:
                payload = zin.read(n)
                if n.endswith("c1.xhtml"):
                    payload = xml_bytes(f'<?xml version="1.0"?>{ents}<html xmlns="http://www.w3.org/1999/xhtml"><body><p>{ref}</p></body></html>')
                zo.writestr(n, payload)
        d = out.getvalue()
        return d, "amp.epub", len(d)
    if fam == "deep":
        n = c["depth"]
        f = c["fmt"]
        shape = c.get("shape", "balanced")
        op = n if shape != "stray_end" else 0
        cl = {"balanced": n, "unclosed": 0, "unmatched_end": n, "stray_end": n}[shape]
        if f == "html":
            end = b"</div>" if shape in ("balanced", "stray_end") else b"</span>"
            d = b"<html><body>" + b"<div>" * op + b"x" + end * cl + b"</body></html>"
        elif f == "rtf":
            d = b"{\\rtf1\\ansi " + b"{\\b " * op + b"x" + b"}" * cl + b"}"
        elif f == "json":
            end = b"]" if shape in ("balanced", "stray_end") else b"}"
            d = b"[" * op + b"1" + end * cl
        elif f == "docx":
            inner = "<w:tbl><w:tr><w:tc>" * min(n, 3000) + "<w:p><w:r><w:t>x</w:t></w:r></w:p>" + "</w:tc></w:tr></w:tbl>" * min(n, 3000)
            doc = f'<?xml version="1.0"?><w:document {corpus.W}><w:body>{inner}<w:sectPr/></w:body></w:document>'
            d = corpus._zip([("[Content_Types].xml", corpus.CT.encode()), ("_rels/.rels", corpus.RELS.encode()), ("word/document.xml", doc.encode()), ("docProps/core.xml", corpus.CORE.encode())])
        else:
            d = corpus._odf("application/vnd.oasis.opendocument.text", "<office:text>" + '<text:span>' * 0 + "<text:p>" + "<text:span>" * n + "x" + "</text:span>" * n + "</text:p></office:text>")
        return d, "amp." + f, max(len(d), _declared_size(d))
    if fam == "ratio_member":
        size = c["mb"] << 20
        blob = b"\0" * size
        name = "big." + c["ext"]
        fmt = c["fmt"]
        small = b"small member\n"
        if fmt == "zip":
            bio = io.BytesIO()
            with zipfile.ZipFile(bio, "w", zipfile.ZIP_DEFLATED) as z:
                z.writestr("s.txt", small)
                z.writestr(name, blob)
            return bio.getvalue(), "amp.zip", size
        if fmt.startswith("tar"):
            bio = io.BytesIO()
            with tarfile.open(fileobj=bio, mode="w:" + fmt.split(".")[1]) as t:
                for nm, dd in (("s.txt", small), (name, blob)):
                    ti = tarfile.TarInfo(nm)
                    ti.size = len(dd)
                    t.addfile(ti, io.BytesIO(dd))
            return bio.getvalue(), "amp." + fmt, size
        from ..sevenz_writer import write_7z
        d = write_7z([{"name": "s.txt", "data": small}, {"name": name, "data": blob}], layout="per_file", method="lzma2")
        return d, "amp.7z", size
    if fam == "pdf_loop":
        d = build_pdf_loop(c["variant"])
        return d, "amp.pdf", len(d)
    if fam == "ole_nested":
        d = build_ole_nested(c["stream"], c["rtype"], c["depth"], c.get("shape", "nested"))
        return d, "amp.ppt", len(d)
    if fam == "lying_7z":
        # a folder whose stream expands far beyond the unpack size its header declares
        from ..sevenz_writer import write_7z
        honest = write_7z([{"name": "a.txt", "data": b"\0" * (c["mb"] << 20)}], layout="solid", method=c["method"], with_crc=False)
        tiny = write_7z([{"name": "a.txt", "data": b"x" * c["declared"]}], layout="solid", method="copy", with_crc=False)
        d = _forge_7z_unpack_size(honest, c["mb"] << 20, c["declared"])
        del honest, tiny
        import gc
        gc.collect()
        return d, "amp.7z", len(d)
    if fam == "mbox_from":
        one = b"From a@example.org Tue Jan  2 03:04:05 2024\nFrom: a@example.org\nSubject: s\n\nb\n\n"
        d = one * c["n"]
        return d, "amp.mbox", len(d)
    raise ValueError(fam)


def _mini_pdf(objs: dict[int, bytes], root: int = 1) -> bytes:
    out = bytearray(b"%PDF-1.4\n")
    offs = {}
    for num in sorted(objs):
        offs[num] = len(out)
        out += b"%d 0 obj\n" % num + objs[num] + b"\nendobj\n"
    xref = len(out)
    n = max(objs) + 1
    out += b"xref\n0 %d\n" % n + b"0000000000 65535 f \n"
    for i in range(1, n):
        out += (b"%010d 00000 n \n" % offs[i]) if i in offs else b"0000000000 65535 f \n"
    out += b"trailer\n<< /Size %d /Root %d 0 R >>\nstartxref\n%d\n%%%%EOF\n" % (n, root, xref)
    return bytes(out)


def _stream(d: bytes, body: bytes) -> bytes:
    return b"<< " + d + b" /Length %d >>\nstream\n" % len(body) + body + b"\nendstream"


def build_pdf_loop(variant: str) -> bytes:
    font = b"<< /Type /Font /Subtype /Type1 /BaseFont /Helvetica >>"
    page = b"<< /Type /Page /Parent 2 0 R /MediaBox [0 0 200 200] /Contents 4 0 R /Resources << /Font << /F1 6 0 R >> /XObject << /X 5 0 R >> >> >>"
    objs = {1: b"<< /Type /Catalog /Pages 2 0 R >>", 2: b"<< /Type /Pages /Kids [3 0 R] /Count 1 >>", 3: page,
            4: _stream(b"", b"BT /F1 12 Tf 10 100 Td (hello loop) Tj ET /X Do"),
            5: _stream(b"/Type /XObject /Subtype /Form /BBox [0 0 10 10]", b"BT /F1 8 Tf (inner) Tj ET"), 6: font}
    if variant == "pages_self_cycle":
        objs[2] = b"<< /Type /Pages /Kids [2 0 R 3 0 R] /Count 2 >>"
    elif variant == "pages_two_cycle":
        objs[2] = b"<< /Type /Pages /Kids [7 0 R 3 0 R] /Count 2 >>"
        objs[7] = b"<< /Type /Pages /Parent 2 0 R /Kids [2 0 R] /Count 1 >>"
    elif variant == "xobject_self_recursion":
        objs[5] = _stream(b"/Type /XObject /Subtype /Form /BBox [0 0 10 10] /Resources << /XObject << /X 5 0 R >> /Font << /F1 6 0 R >> >>", b"BT /F1 8 Tf (inner) Tj ET /X Do")
    elif variant == "contents_array_cycle":
        objs[3] = page.replace(b"/Contents 4 0 R", b"/Contents [4 0 R 8 0 R]")
        objs[8] = b"[4 0 R 8 0 R]"
    elif variant == "outline_cycle":
        objs[1] = b"<< /Type /Catalog /Pages 2 0 R /Outlines 9 0 R >>"
        objs[9] = b"<< /Type /Outlines /First 10 0 R /Last 10 0 R /Count 1 >>"
        objs[10] = b"<< /Title (a) /Parent 9 0 R /Next 10 0 R /First 10 0 R >>"
    elif variant == "huge_count":
        objs[2] = b"<< /Type /Pages /Kids [3 0 R] /Count 2000000000 >>"
    elif variant == "indirect_length_cycle":
        objs[4] = b"<< /Length 4 0 R >>\nstream\nBT (x) Tj ET\nendstream"
    return _mini_pdf(objs)


OLE_CONTAINER_TYPES = [0x0FF0, 0x03E8, 0x03EE, 0x03F0, 0x0FF5, 0xF002, 0xF003, 0xF004, 0x040C, 0x1388,
                       0xF01A, 0xF01B, 0xF01F, 0xF01E]  # picture (BLIP) record types flagged as containers


def build_ole_nested(stream: str, rtype: int, depth: int, shape: str = "nested") -> bytes:
    """a PPT (valid OLE2 shell of a fixture) whose record stream is rewritten in place as `depth` containers nested in each other
    (8 bytes each, every one spanning the rest); the stream keeps its length, the remainder is zero-filled"""
    import struct
    import olefile
    src = _docs["fx/legacy_ms/eurouni2.ppt"]
    bio = io.BytesIO(src)
    ole = olefile.OleFileIO(bio, write_mode=True)
    n = ole.get_size(stream)
    depth = max(1, min(depth, n // 8))
    b = bytearray(n)
    for i in range(depth):
        # "nested": every container spans exactly the rest of its parent; "overrun": every container claims a fixed length, so each one
        # ends a little after its parent does (record lengths are only checked against the stream, not against the enclosing record)
        ln = 8 * (depth - i - 1) if shape == "nested" else min(n - 8 * i - 8, 4096)
        struct.pack_into("<HHI", b, 8 * i, 0x000F, rtype if (i or rtype != 0x0FF0) else 0x03E8, ln)
    ole.write_stream(stream, bytes(b))
    ole.close()
    return bio.getvalue()


PDF_LOOPS = ["plain", "pages_self_cycle", "pages_two_cycle", "xobject_self_recursion", "contents_array_cycle", "outline_cycle", "huge_count", "indirect_length_cycle"]


def build_scaling(fam: str, n: int) -> tuple[bytes, str]:
    if fam == "mbox_from":
        one = b"From a@example.org Tue Jan  2 03:04:05 2024\n"
        return one * n + b"From: a@example.org\nSubject: s\nDate: Tue, 02 Jan 2024 03:04:05 +0000\n\nbody\n", "s.mbox"
    if fam == "deep_ppt_overrun":
        return build_ole_nested("PowerPoint Document", 0x0FF0, n, "overrun"), "s.ppt"
    if fam == "deep_ppt_pictures":
        return build_ole_nested("Pictures", 0xF01A, n), "s.ppt"
    if fam == "epub_nav_soup":
        # a table-of-contents document that is nothing but anchor starts which never close
        base = _docs["gen/a.epub"]
        out = io.BytesIO()
        with zipfile.ZipFile(io.BytesIO(base)) as zin, zipfile.ZipFile(out, "w", zipfile.ZIP_DEFLATED) as zo:
            for nm in zin.namelist():
                payload = zin.read(nm)
                if nm.endswith("content.opf"):
                    payload = payload.replace(b"</manifest>", b'<item id="nav" href="nav.xhtml" media-type="application/xhtml+xml" properties="nav"/>'
                                              b'<item id="ncx" href="toc.ncx" media-type="application/x-dtbncx+xml"/></manifest>').replace(b"<spine>", b'<spine toc="ncx">')
                zo.writestr(nm, payload)
            soup = b"<html><body><nav>" + b'<a class="x" ' * n + b"</nav></body></html>"
            zo.writestr("OEBPS/nav.xhtml", soup)
            zo.writestr("OEBPS/toc.ncx", soup)
        return out.getvalue(), "s.epub"
    if fam == "deep_ppt":
        return build_ole_nested("PowerPoint Document", 0x0FF0, n), "s.ppt"
    if fam == "soup_html":
        d, route, _u = build_amp({"family": "deep", "fmt": "html", "depth": n, "shape": "unmatched_end"})
        return d, route
    if fam.startswith("deep_"):
        d, route, _u = build_amp({"family": "deep", "fmt": fam[5:], "depth": n})
        return d, route
    if fam == "html_rows":
        return (b"<html><body><table>" + b"".join(b"<tr><td>%d</td><td>cell</td></tr>" % i for i in range(n)) + b"</table></body></html>"), "s.html"
    if fam == "csv_rows":
        return b"".join(b"%d,value,more\n" % i for i in range(n)), "s.csv"
    if fam == "rtf_paragraphs":
        return b"{\\rtf1\\ansi " + b"".join(b"\\pard paragraph %d\\par\n" % i for i in range(n)) + b"}", "s.rtf"
    if fam == "docx_paragraphs":
        body = "".join(f"<w:p><w:r><w:t>paragraph {i}</w:t></w:r></w:p>" for i in range(n))
        doc = f'<?xml version="1.0"?><w:document {corpus.W}><w:body>{body}<w:sectPr/></w:body></w:document>'
        return corpus._zip([("[Content_Types].xml", corpus.CT.encode()), ("_rels/.rels", corpus.RELS.encode()), ("word/document.xml", doc.encode()),
                            ("docProps/core.xml", corpus.CORE.encode())]), "s.docx"
    if fam == "odt_paragraphs":
        body = "<office:text>" + "".join(f"<text:p>paragraph {i}</text:p>" for i in range(n)) + "</office:text>"
        return corpus._odf("application/vnd.oasis.opendocument.text", body), "s.odt"
    if fam == "zip_members":
        return corpus._zip([(f"d/m{i}.txt", b"member %d\n" % i) for i in range(n)]), "s.zip"
    raise ValueError(fam)


def _run_scaling(case, viol, probes, log):
    from sharepoint2text.parsing.router import get_extractor
    iosim.arm_budgets(240, 3 << 30)
    fam, n, k = case["family"], case["n"], case["factor"]
    cpus = []
    for size in (n, n * k):
        data, route = build_scaling(fam, size)
        t0 = time.process_time()
        try:
            for r in get_extractor(route)(io.BytesIO(data), route):
                r.get_full_text()
            oc = "ok"
        except Exception as e:
            oc = type(e).__name__
        cpus.append((time.process_time() - t0, len(data), oc))
        del data
    iosim.disarm_as()
    (c1, l1, o1), (c2, l2, o2) = cpus
    probes["scaling_pair"] = 1
    log.ev("scaling", fam, n, o1, o2)
    ratio = c2 / max(c1, 0.05)
    if c2 >= 3.0 and ratio > 3.0 * k and o1 == o2:
        viol.append({"class": "amplification_time", "sig": f"scaling|{fam}",
                     "detail": f"{fam}: n={n} ({l1} bytes) took {c1:.2f}s CPU, n={n * k} ({l2} bytes) took {c2:.2f}s: x{ratio:.1f} for x{k} input (outcomes {o1}/{o2})"})
    return [f"scaling|{fam}|{o2}|{'slow' if c2 >= 3 else 'fast'}"]


def _forge_7z_unpack_size(arc: bytes, real: int, declared: int) -> bytes:
    """rewrite the (plain) end header: every 7z-number encoding of the real size is replaced by the declared one, CRCs fixed"""
    import struct
    import zlib
    from ..sevenz_writer import number
    nh_off, nh_size = struct.unpack_from("<QQ", arc, 12)
    hdr = arc[32 + nh_off: 32 + nh_off + nh_size]
    hdr2 = hdr.replace(number(real), number(declared))
    body = arc[32: 32 + nh_off]
    start = struct.pack("<QQI", len(body), len(hdr2), zlib.crc32(hdr2) & 0xFFFFFFFF)
    return arc[:8] + struct.pack("<I", zlib.crc32(start) & 0xFFFFFFFF) + start + body + hdr2


# ------------------------------------------------------------------------------------------------ budgets
def _budget(U: int, mode: str = "amp"):
    if mode == "fault":
        # blind count-field faults also produce legitimately heavy (large but linear) documents: only runaway growth is flagged
        return 4 * MEM_BASE + 4 * MEM_PER_BYTE * U, 2 * CPU_BASE + 4 * CPU_PER_BYTE * U
    return MEM_BASE + MEM_PER_BYTE * U, CPU_BASE + CPU_PER_BYTE * U


def _rss_now() -> int:
    try:
        with open("/proc/self/statm") as f:
            return int(f.read().split()[1]) * resource.getpagesize()
    except Exception:
        return 0


def _reset_peak_rss():
    try:
        with open("/proc/self/clear_refs", "w") as f:
            f.write("5")  # resets VmHWM: the generator of the document must not count against the extraction
    except OSError:
        pass


def _peak_rss() -> int:
    try:
        with open("/proc/self/status") as f:
            for line in f:
                if line.startswith("VmHWM:"):
                    return int(line.split()[1]) * 1024
    except OSError:
        pass
    return iosim.peak_rss()


def _find_memoryerror(exc):
    seen = 0
    while exc is not None and seen < 8:
        if isinstance(exc, MemoryError):
            return exc
        exc = exc.__cause__ or exc.__context__
        seen += 1
    return None


def classify_harness(rec, payload):
    stack = rec.get("stack") or ""
    case = (payload or {}).get("case") if isinstance(payload, dict) else None
    if case is None and isinstance(payload, dict) and "seed" in payload:
        try:
            case = gen_case(random.Random(payload["seed"]), "quick")
        except Exception:
            case = None
    fam = _family_sig(case) if case else "?"
    if rec.get("_harness") in ("timeout",) or (rec.get("_harness") == "crash" and rec.get("signal") in (9, 24)):
        return {"class": "amplification_time", "sig": f"killed|{fam}|" + iosim.stack_signature(stack),
                "detail": f"child killed by the CPU limit / wall cap (signal {rec.get('signal')}, wall {rec.get('wall', 0):.0f}s); stack: {stack[-600:]}"}
    if rec.get("_harness") == "crash" and rec.get("signal") in (11, 6, 7):
        return {"class": "amplification_memory", "sig": f"crashed_under_cap|{fam}|" + iosim.stack_signature(stack),
                "detail": f"child crashed with signal {rec.get('signal')} under the address-space cap; stack: {stack[-600:]}"}
    return None


def _family_sig(case) -> str:
    if case["mode"] == "amp":
        f = case["family"]
        if f == "ods_repeat":
            big_row = case["row_repeat"] > 100
            big_cell = (case["empty_cell_repeat"] if case["row_empty"] else case["cell_repeat"]) > 100
            return f"ods_repeat|{'row_empty' if case['row_empty'] else ('cells_empty' if case['cell_empty'] else 'cells_nonempty')}|{'rows_big' if big_row else 'rows_small'}|{'cols_big' if big_cell else 'cols_small'}"
        if f == "text_space":
            return f"text_space|{case['fmt']}"
        if f == "deep":
            return f"deep|{case['fmt']}" + (f"|{case['shape']}" if case.get("shape", "balanced") != "balanced" else "")
        if f == "entities":
            return f"entities|{case['target']}" + ("" if case.get("enc", "utf-8") == "utf-8" else "|utf16")
        if f == "lying_7z":
            return f"lying_7z|{case['method']}"
        if f == "pdf_loop":
            return f"pdf_loop|{case['variant']}"
        if f == "ole_nested":
            return f"ole_nested|{case['stream'].split()[0]}|{case['rtype']:#06x}|{'deep' if case['depth'] > 1400 else 'shallow'}" + ("|overrun" if case.get("shape") == "overrun" else "")
        if f == "ratio_member":
            return f"ratio_member|{case['fmt']}|{case['ext']}"
        return f
    if case["mode"] == "scaling":
        return f"scaling|{case['family']}"
    if case["mode"] == "fault":
        ks = sorted({(op[2][1][0] if op[0] == "zip" else "le_field") for op in case["ops"]})
        return f"fault|{iosim.ext_of(case['doc'])}|{'+'.join(ks)}"
    return case["mode"]


# ------------------------------------------------------------------------------------------------ execution: amplifiers and faults
def _run_budgeted(case, data, route_name, U, viol, probes, log):
    from sharepoint2text.parsing.exceptions import ExtractionError
    from sharepoint2text.parsing.router import get_extractor
    mem_b, cpu_b = _budget(U, case["mode"])
    iosim.arm_budgets(cpu_b, int(mem_b * 1.15) + (64 << 20))
    _reset_peak_rss()
    rss0 = _rss_now()
    t0 = time.process_time()
    exc = None
    nres = 0
    out_chars = 0
    try:
        for r in get_extractor(route_name)(io.BytesIO(data), route_name):
            nres += 1
            out_chars += len(r.get_full_text())
    except BaseException as e:  # noqa
        exc = e
    cpu = time.process_time() - t0
    iosim.disarm_as()
    peak = max(0, _peak_rss() - rss0)
    fsig = _family_sig(case)
    outcome = "ok" if exc is None else ("family" if isinstance(exc, ExtractionError) else "escape:" + type(exc).__name__)
    me = _find_memoryerror(exc) if exc is not None else None
    site = iosim.innermost_frame(me or exc, prefer=("sharepoint2text", "site-packages")) if exc is not None else "-"
    log.ev("budgeted", fsig, outcome, nres)
    if me is not None:
        probes["memory_error_under_cap"] = 1
        viol.append({"class": "amplification_memory", "sig": f"{fsig}|{site}",
                     "detail": f"{len(data)}-byte input (U={U}) hit the address-space cap of {mem_b >> 20} MiB: MemoryError at {site}; params={ {k: v for k, v in case.items() if k not in ('ops',)} }"})
    elif peak > mem_b:
        probes["budget_exceeded"] = 1
        viol.append({"class": "amplification_memory", "sig": f"{fsig}|peak_rss", "detail": f"{len(data)}-byte input (U={U}): peak additional RSS {peak >> 20} MiB > bound {mem_b >> 20} MiB"})
    if cpu > cpu_b:
        probes["budget_exceeded"] = 1
        viol.append({"class": "amplification_time", "sig": f"{fsig}|cpu", "detail": f"{len(data)}-byte input (U={U}): CPU {cpu:.1f}s > bound {cpu_b:.1f}s"})
    if case.get("family") == "entities" and out_chars > 64 * U + (1 << 20):
        # entity tricks: the only honest outcomes are a refusal or the unexpanded text; megabytes of text out of a few KB are the expansion itself
        # (the XML library's own amplification guard only stops it later, far below the memory bound above)
        viol.append({"class": "amplification_output", "sig": f"{fsig}|entities_expanded", "detail": f"{len(data)}-byte input (U={U}) produced {out_chars} characters of text"})
    return outcome, peak, cpu


# ------------------------------------------------------------------------------------------------ execution: explicit limits
def _run_limit(case, viol, probes, log):
    import sharepoint2text
    from sharepoint2text.parsing.exceptions import ExtractionError, ExtractionFileTooLargeError
    from sharepoint2text.parsing.extractors import archive_extractor as ae
    from sharepoint2text.parsing.router import get_extractor
    kind = case["kind"]
    sbx = os.path.join(K.sandbox_root(), f"c12-{os.getpid()}")
    os.makedirs(sbx, exist_ok=True)
    fsseam.AUDIT.install()
    nontriv = []
    try:
        if kind in ("file_size", "file_grows"):
            L, delta = case["L"], case["delta"]
            base_L = L if L > 0 else 5000
            size = max(0, base_L + delta)
            p = os.path.join(sbx, f"f.{case['ext']}")
            with open(p, "wb") as f:
                if size > 2_000_000:
                    f.truncate(size)  # sparse
                else:
                    f.write((b"line of text\n" * (size // 13 + 1))[:size])
            grows = kind == "file_grows" and L > 0
            start_size = size
            if grows:
                start_size = max(0, L - 1)
                with open(p, "r+b") as f:
                    f.truncate(start_size)
                probes["limit_file_grows_after_call"] = 1
            ev0 = len(fsseam.AUDIT.events)
            fsseam.AUDIT.enabled = True
            exc = None
            try:
                gen = sharepoint2text.read_file(p, max_file_size=L) if L != 100 * 1024 * 1024 or True else None
                ev_growth = None
                if grows:
                    fsseam.AUDIT.enabled = False
                    ev_growth = len(fsseam.AUDIT.events)
                    with open(p, "r+b") as f:  # another writer appends between the call and the first next()
                        f.truncate(L + max(1, delta) + 1)
                    fsseam.AUDIT.enabled = True
                    size = L + max(1, delta) + 1
                for r in gen:
                    r.get_full_text()
            except BaseException as e:  # noqa
                exc = e
            finally:
                fsseam.AUDIT.enabled = False
            opened = [e for e in fsseam.AUDIT.events[ev0:] if e[0] == "open" and os.path.realpath(e[1]) == os.path.realpath(p)]
            must_refuse = L > 0 and size > L
            if grows:
                # only a read that happened AFTER the growth consumed an over-limit file (an implementation that stats and reads
                # eagerly at call time has read the small file and is fine)
                opened_after = [e for e in fsseam.AUDIT.events[ev_growth:] if e[0] == "open" and os.path.realpath(e[1]) == os.path.realpath(p)]
                must_refuse = bool(opened_after) or isinstance(exc, ExtractionFileTooLargeError)
                opened = opened_after
            probes["limit_file_size_disabled" if L == 0 else "limit_file_size_exact"] = 1
            log.ev("file_limit", L, size, type(exc).__name__ if exc else None, len(opened))
            if must_refuse:
                if not isinstance(exc, ExtractionFileTooLargeError):
                    viol.append({"class": "limit_not_enforced", "sig": f"read_file|{'grown_after_call' if grows else 'size>L'}",
                                 "detail": f"max_file_size={L}, file size {size}{' (grown after the call, before consumption)' if grows else ''}: outcome {exc!r}"})
                if opened:
                    viol.append({"class": "refused_data_was_read", "sig": f"read_file|{'grown_after_call' if grows else 'size>L'}",
                                 "detail": f"max_file_size={L}, size {size}: the file was opened {len(opened)}x although it must be refused before reading"})
            else:
                if isinstance(exc, ExtractionFileTooLargeError):
                    viol.append({"class": "limit_refuses_allowed_size", "sig": f"read_file|{'disabled' if L == 0 else 'size<=L'}",
                                 "detail": f"max_file_size={L}, file size {size}: refused with {exc!r}"})
            nontriv.append(f"file|{'0' if L == 0 else 'def' if L > 10 ** 7 else 'small'}|{delta}|{'grow' if grows else 'static'}")
        elif kind == "7z_size":
            probes["limit_7z_archive_size"] = 1
            size = ae.MAX_7Z_FILE_SIZE + case["delta"]
            small = archgen.build({"fmt": "7z", "members": [{"name": "a.txt", "doc": "txt", "token": "T"}], "7z": {"method": "copy"}})
            buf = bytearray(size)
            buf[: len(small)] = small
            reads = []

            class Spy(io.BytesIO):
                def read(self, n=-1):
                    reads.append((self.tell(), n))
                    return super().read(n)

            exc = None
            try:
                list(get_extractor("big.7z")(Spy(bytes(buf)), "big.7z"))
            except BaseException as e:  # noqa
                exc = e
            del buf
            log.ev("7z_limit", size, type(exc).__name__ if exc else None)
            if case["delta"] > 0:
                if not isinstance(exc, ExtractionFileTooLargeError):
                    viol.append({"class": "limit_not_enforced", "sig": "7z_archive_size", "detail": f"7z archive of {size} bytes: outcome {exc!r}"})
                big_reads = [r for r in reads if r[0] >= 512 or (r[1] is not None and (r[1] < 0 or r[1] > 4096))]
                if big_reads:
                    viol.append({"class": "refused_data_was_read", "sig": "7z_archive_size", "detail": f"oversize 7z archive was read beyond its signature before being refused: {big_reads[:3]}"})
            elif isinstance(exc, ExtractionFileTooLargeError):
                viol.append({"class": "limit_refuses_allowed_size", "sig": "7z_archive_size", "detail": f"7z archive of exactly {size} bytes refused: {exc!r}"})
            nontriv.append(f"7z_size|{case['delta']}")
        else:
            N, delta, fmt = case["N"], case["delta"], case["fmt"]
            ae.configure_archive_extraction(max_memory_size=N)
            big = {"name": "dir/big.txt", "kind": "file", "doc": "txt", "token": "TOKBIG", "pad": 0}
            base_len = len(archgen.member_bytes(big))
            big["pad"] = N + delta - base_len
            assert len(archgen.member_bytes(big)) == N + delta
            ok1 = {"name": "ok1.txt", "kind": "file", "doc": "txt", "token": "TOKOK1", "pad": 10}
            ok2 = {"name": "dir/ok2.csv", "kind": "file", "doc": "csv", "token": "TOKOK2", "pad": 10}
            members = {"first": [big, ok1, ok2], "middle": [ok1, big, ok2], "last": [ok1, ok2, big]}[case["pos"]]
            only_big = bool(case.get("only_big"))
            if only_big:
                members = [big]  # nothing else is wanted: the filter set is empty
            if fmt.startswith("tar") and case.get("link_to_big"):
                # a hard link has size 0 of its own; following it must not bring the oversize member in through the back door
                members = members + [{"name": "alias.txt", "kind": "hardlink", "link": "dir/big.txt"}]
                probes["limit_member_tar_hardlink_to_oversize"] = 1
            if kind == "member_dup":
                probes["limit_member_duplicate_names"] = 1
                fmt = "zip" if fmt == "7z" else fmt
                small_twin = {"name": "dir/big.txt", "kind": "file", "doc": "txt", "token": "TOKTWIN", "pad": 0}
                members = [small_twin] + members  # same name: a small entry first, the oversize one later
            spec = {"fmt": fmt, "members": members, "zip_method": "deflated", "7z": {"layout": case["layout"], "method": case["method"]}}
            arc = archgen.build(spec)
            probes["limit_member_" + ("zip" if fmt == "zip" else "7z" if fmt == "7z" else "tar")] = 1
            td = os.path.join(sbx, "tmp")
            os.makedirs(td, exist_ok=True)
            old_td = tempfile.tempdir
            tempfile.tempdir = td
            opened_sizes = []
            real_zopen = zipfile.ZipFile.open
            real_xf = tarfile.TarFile.extractfile

            def zopen(self, name, *a, **k):
                info = name if isinstance(name, zipfile.ZipInfo) else self.getinfo(name)
                opened_sizes.append(("zip_open", info.filename, info.file_size))
                return real_zopen(self, name, *a, **k)

            def xf(self, member):
                m = member if isinstance(member, tarfile.TarInfo) else self.getmember(member)
                opened_sizes.append(("tar_extractfile", m.name, m.size))
                return real_xf(self, member)

            zipfile.ZipFile.open = zopen
            tarfile.TarFile.extractfile = xf
            ev0 = len(fsseam.AUDIT.events)
            fsseam.AUDIT.enabled = True
            exc = None
            res = []
            try:
                for r in get_extractor("A" + archgen.ext_of(fmt))(io.BytesIO(arc), "A" + archgen.ext_of(fmt)):
                    res.append(r)
            except BaseException as e:  # noqa
                exc = e
            finally:
                fsseam.AUDIT.enabled = False
                zipfile.ZipFile.open = real_zopen
                tarfile.TarFile.extractfile = real_xf
                tempfile.tempdir = old_td
            writes = [e for e in fsseam.AUDIT.events[ev0:] if e[0] == "open" and fsseam.is_write_open(e[2], e[3])]
            blob = "\n".join(r.get_full_text() for r in res)
            over = delta > 0
            log.ev("member_limit", fmt, N, delta, len(res), type(exc).__name__ if exc else None, len(opened_sizes), len(writes))
            if exc is not None and not isinstance(exc, ExtractionError):
                viol.append({"class": "limit_check_raised", "sig": f"{fmt}|{type(exc).__name__}", "detail": f"{exc!r}"})
            if over and "TOKBIG" in blob:
                viol.append({"class": "limit_not_enforced", "sig": f"member|{fmt}", "detail": f"member of {N + delta} bytes with per-member limit {N} produced a result"})
            if not over and exc is None and "TOKBIG" not in blob:
                viol.append({"class": "limit_refuses_allowed_size", "sig": f"member|{fmt}", "detail": f"member of exactly {N + delta} bytes (limit {N}) produced no result"})
            if exc is None and not only_big and ("TOKOK1" not in blob or "TOKOK2" not in blob):
                viol.append({"class": "limit_skips_wrong_member", "sig": f"member|{fmt}", "detail": f"members within the limit are missing next to an oversize one (limit {N})"})
            if over:
                too_big = [o for o in opened_sizes if o[2] > N]
                if too_big:
                    viol.append({"class": "oversize_member_decompressed", "sig": f"{fmt}|{too_big[0][0]}{'|duplicate_name' if kind == 'member_dup' else ''}",
                                 "detail": f"per-member limit {N}: {too_big[0]} was opened for reading although it must be skipped undecompressed"})
                wbig = [w for w in writes if os.path.basename(w[1]) == "big.txt"]
                if wbig:
                    viol.append({"class": "oversize_member_written_to_disk", "sig": f"{fmt}|{case['layout'] if fmt == '7z' else '-'}",
                                 "detail": f"per-member limit {N}: the oversize member ({N + delta} bytes) was written to {wbig[0][1]}"})
            nontriv.append(f"member|{fmt}|{delta}|{case['pos']}|{kind}")
            ae.configure_archive_extraction(max_memory_size=10 * 1024 * 1024)
    finally:
        shutil.rmtree(sbx, ignore_errors=True)
    return nontriv


def run_case(case: dict) -> dict:
    log = K.EventLog()
    log.ev("case", K.h64(K.jdump(case)))
    viol, probes, nontriv, faults = [], {}, [], {}
    if case["mode"] == "limit":
        iosim.arm_budgets(120, 3 << 30)
        nontriv = _run_limit(case, viol, probes, log)
    elif case["mode"] == "scaling":
        nontriv = _run_scaling(case, viol, probes, log)
        faults["scaling:" + case["family"]] = 1
    elif case["mode"] == "amp":
        data, route, U = build_amp(case)
        probes[{"ods_repeat": "amp_ods_repeat", "text_space": "amp_odf_text_space_count", "xlsx_dimension": "amp_xlsx_dimension", "entities": "amp_entities",
                "deep": "amp_deep_nesting", "ratio_member": "amp_ratio_member", "mbox_from": "amp_mbox_many_from", "lying_7z": "amp_7z_lying_unpack_size", "pdf_loop": "amp_pdf_object_loop", "ole_nested": "amp_ole_nested_containers"}[case["family"]]] = 1
        outcome, peak, cpu = _run_budgeted(case, data, route, U, viol, probes, log)
        nontriv = [f"{_family_sig(case)}|{outcome.split(':')[0]}"]
        faults[case["family"]] = 1
    else:
        data = iosim.materialise(case)
        probes["amp_count_field_fault"] = 1
        U = max(len(data), _declared_size(data))
        outcome, peak, cpu = _run_budgeted(case, data, "f." + case["route"], U, viol, probes, log)
        nontriv = [f"{_family_sig(case)}|{outcome.split(':')[0]}"]
        faults["count_field"] = len(case["ops"])
    seen, out = set(), []
    for v in viol:
        if (v["class"], v["sig"]) not in seen:
            seen.add((v["class"], v["sig"]))
            out.append(v)
    return {"violations": out, "digest": log.digest(), "steps": log.n, "evals": 1, "faults": faults, "probes": probes, "nontrivial": nontriv,
            "states": [log.digest()[:8]], "summary": {"mode": case["mode"], "sig": _family_sig(case)}}


def _declared_size(data: bytes) -> int:
    if blockdev.is_zip(data):
        try:
            with zipfile.ZipFile(io.BytesIO(data)) as z:
                return sum(i.file_size for i in z.infolist())
        except Exception:
            return 0
    return 0


def shrink(case):
    if case["mode"] == "fault":
        ops = case["ops"]
        for i in range(len(ops)):
            if len(ops) > 1:
                yield dict(case, ops=ops[:i] + ops[i + 1:])
