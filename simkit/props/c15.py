"""C15 -- isolation: results independent of history and of concurrent work (engine schedsim, DESIGN.md 2.1 / 3.C15)."""
from __future__ import annotations

import gc
import hashlib
import io
import os
import random
import sys
import tempfile
import threading
import types
import weakref

from .. import canon, corpus
from .. import kernel as K
from .. import sched as S
from .. import coldworker

ID = "C15"
ENGINE = "schedsim"
LEVEL = "exploration"
BUDGET = {"quick": 60, "thorough": 1200}
RUN_TIMEOUT = 150
SELFTEST_PAIRS = {"quick": 10, "thorough": 30}
PROBES = ["first_import_of_extractor_module", "pct_style_schedule", "first_use_of_reloaded_extractor_module", "two_tasks_in_charmap_section", "exception_inside_section", "failing_input_in_history",
          "lock_contended", "sequential_history", "aes_pdf_in_workload", "mixed_formats", "archive_7z_in_workload", "systematic_switch_in_section", "cold_history"]
RULE = ("one run = k real threads x 1-3 real extractions (or one sequential history of 2-10) under a seeded pre-emptive schedule; "
        "distinct non-trivial = distinct projection of the event log onto (task, line) events inside the char-map patch section plus "
        "context-switch positions, counted only when >= 2 tasks overlapped inside the section or the history mixes >= 2 documents")
ASSUMPTIONS = [
    "pre-emption happens only at Python call/line events of instrumented code objects (sharepoint2text.*, pypdf._page/_cmap/_font); never inside C code or uninstrumented third-party frames",
    "isolated baselines are computed in forks taken before any extraction ran in the zygote",
    "residue rule: a watched third-party module/class attribute counts as residue when its identity changed and the new value is package-defined code or a changed immutable value; memo tables may grow",
    "lock objects in package modules and the name `threading` there are replaced by simulation-aware wrappers after import",
]
COMPONENTS = {"real": ["sharepoint2text extractors (PDF, DOCX, XLSX, EML, archives, HTML ...)", "pypdf, olefile, openpyxl, xlrd, mailparser", "real threading.Thread objects"],
              "stub": ["the choice of which thread runs next (seeded scheduler)", "lock blocking for package-level locks (SimLock)", "injected exception on the j-th PageObject.extract_text call"]}

WATCH_PREFIX = ("pypdf", "olefile", "openpyxl", "xlrd", "mailparser", "msg_parser", "zipfile", "tarfile", "mimetypes", "lzma", "defusedxml")
_docs: dict[str, bytes] = {}
_base: dict[str, str] = {}
_pool: list[str] = []
_pdfs: list[str] = []
_call_codes: list = []
_line_codes: list = []
_section_code = None
_sbx = None


_WARM_RESIDUE: list = []
_STD0: dict = {}
_families: dict[str, list[str]] = {}
_FAMILY = {"xlt": "xls", "pps": "ppt", "pot": "ppt", "dot": "doc", "docm": "docx", "dotx": "docx", "dotm": "docx", "xlsm": "xlsx", "xltx": "xlsx", "pptm": "pptx",
           "ppsx": "pptx", "ott": "odt", "ots": "ods", "otp": "odp", "odg": "odp", "odf": "odt", "htm": "html", "mhtml": "html", "mht": "html", "msg": "eml",
           "mbox": "eml", "tar": "zip", "gz": "zip", "tgz": "zip", "bz2": "zip", "xz": "zip", "7z": "zip", "tsv": "csv", "md": "txt", "json": "txt"}


def _family_of(n: str) -> str:
    e = n.rsplit(".", 1)[-1].lower()
    return _FAMILY.get(e, e)


def _remember_std():
    import warnings
    _STD0.update({"stdout": sys.stdout, "stderr": sys.stderr, "stdin": sys.stdin, "excepthook": sys.excepthook, "displayhook": sys.displayhook,
                  "threading.excepthook": threading.excepthook, "warnings.showwarning": warnings.showwarning})


def _interp_settings():
    import csv
    import decimal
    import socket
    return {"recursionlimit": sys.getrecursionlimit(), "decimal_prec": decimal.getcontext().prec, "csv_field_size_limit": csv.field_size_limit(),
            "socket_default_timeout": socket.getdefaulttimeout(), "cwd": os.getcwd(), "sys_path": tuple(sys.path),
            "environ": hashlib.sha1(repr(sorted(os.environ.items())).encode()).hexdigest()}


def _extract_digest(name: str, data: bytes):
    try:
        rs = list(corpus.extractor_for(name)(io.BytesIO(data), None))
        return "ok:" + canon.digest([r.to_json() for r in rs])
    except Exception as e:
        return "exc:" + type(e).__name__


def _aes_variants(p):
    """AES-encrypted copies (empty user password) written with pypdf + the library's own fallback AES, in a helper fork"""
    from sharepoint2text.parsing.extractors.pdf._pypdf_aes_fallback import patch_pypdf_fallback_aes
    from pypdf import PdfReader, PdfWriter
    import secrets
    salt = [0]
    secrets.token_bytes = lambda n: bytes((i * 37 + 11 + salt[0]) % 256 for i in range(n))  # deterministic IVs / salts / file keys
    os.urandom = secrets.token_bytes
    patch_pypdf_fallback_aes()
    out = {}
    for alg, src in (("AES-128", "data"), ("AES-256", "data"), ("AES-256b", "data2")):
        if not p.get(src):
            continue
        salt[0] += 53  # another file key per document
        r = PdfReader(io.BytesIO(p[src]))
        w = PdfWriter()
        for pg in r.pages:
            w.add_page(pg)
        w._ID = None
        w.encrypt(user_password="", owner_password="owner" + alg, algorithm=alg.rstrip("b"))
        b = io.BytesIO()
        w.write(b)
        out[alg] = K.b64e(b.getvalue())
    return out


def _patch_picture_dims(b: bytearray, start: int, end: int) -> int:
    """change the pixel dimensions recorded late in a JPEG (first SOF segment) / in a PNG IHDR inside b[start:end]; returns pictures changed"""
    import struct
    import zlib
    n = 0
    i = b.find(b"\xff\xd8\xff", start, end)
    while i >= 0 and n < 8:
        j = i + 2
        while j + 9 < end and b[j] == 0xFF:
            mk = b[j + 1]
            if mk in (0xC0, 0xC1, 0xC2):
                h, w = struct.unpack_from(">HH", b, j + 5)
                struct.pack_into(">HH", b, j + 5, max(1, h // 2 + 1), max(1, w // 2 + 3))
                n += 1
                break
            if mk == 0xD8 or 0xD0 <= mk <= 0xD7 or mk == 0x01:
                j += 2
                continue
            j += 2 + struct.unpack_from(">H", b, j + 2)[0]
        i = b.find(b"\xff\xd8\xff", i + 3, end)
    i = b.find(b"\x89PNG\r\n\x1a\n\x00\x00\x00\rIHDR", start, end)
    while i >= 0 and n < 16:
        w, h = struct.unpack_from(">II", b, i + 16)
        struct.pack_into(">II", b, i + 16, max(1, w // 2 + 3), max(1, h // 2 + 1))
        struct.pack_into(">I", b, i + 29, zlib.crc32(bytes(b[i + 12:i + 29])) & 0xFFFFFFFF)
        n += 1
        i = b.find(b"\x89PNG\r\n\x1a\n\x00\x00\x00\rIHDR", i + 8, end)
    return n


def _near_duplicate(name: str, data: bytes):
    """the same document with only the recorded size of its embedded pictures changed (bytes that differ sit past the picture's
    leading bytes): memo tables keyed on a name, a length or a prefix of the content give the earlier document's answer"""
    import zipfile
    if data[:4] == b"PK\x03\x04":
        try:
            zin = zipfile.ZipFile(io.BytesIO(data))
            out = io.BytesIO()
            n = 0
            with zipfile.ZipFile(out, "w", zipfile.ZIP_DEFLATED) as zo:
                for zi in zin.infolist():
                    payload = zin.read(zi)
                    if zi.filename.lower().endswith((".jpg", ".jpeg", ".png")):
                        b = bytearray(payload)
                        n += _patch_picture_dims(b, 0, len(b))
                        payload = bytes(b)
                    z2 = zipfile.ZipInfo(zi.filename, date_time=zi.date_time)
                    z2.compress_type = zi.compress_type
                    z2.external_attr = zi.external_attr
                    zo.writestr(z2, payload)
            return out.getvalue() if n else None
        except Exception:
            return None
    if data[:8] == b"\xd0\xcf\x11\xe0\xa1\xb1\x1a\xe1":
        b = bytearray(data)
        return bytes(b) if _patch_picture_dims(b, 512, len(b)) else None
    return None


def _variants(docs):
    out = {}
    for n in sorted(docs):
        if len(docs[n]) < 600_000 and n.rsplit(".", 1)[-1].lower() in ("ppt", "xls", "doc", "docx", "pptx", "xlsx", "odt", "odp", "ods", "epub"):
            d = _near_duplicate(n, docs[n])
            if d and d != docs[n]:
                out["var/neardup-" + os.path.basename(n)] = d
    w = docs.get("fx/pdf/wirecard-annual-report-2018-page190.pdf")
    if w:
        out["var/wirecard-trunc.pdf"] = w[: len(w) * 2 // 3]
        b = bytearray(w)
        b[len(b) // 2] ^= 0x10
        out["var/wirecard-flip.pdf"] = bytes(b)
    out["var/notpdf.pdf"] = b"this is not a pdf at all\n" * 4
    z7 = docs.get("fx/archives/test_archive.7z")
    if z7:
        for o in (36, 40, 60, len(z7) // 2):  # payload / header damage: header may still parse, extraction fails
            b = bytearray(z7)
            for i in range(o, min(len(b), o + 4)):
                b[i] ^= 0xFF
            out[f"var/corrupt{o}.7z"] = bytes(b)
    # archives sharing member base names in different roles (hidden / resource fork / regular)
    out["var/macosx.zip"] = corpus._zip([("__MACOSX/summary.txt", b"resource fork junk\n"), ("docs/other.txt", b"other\n"), (".hidden.txt", b"h\n")])
    out["var/plain.zip"] = corpus._zip([("docs/summary.txt", b"real summary\n"), ("other.txt", b"other two\n"), ("hidden.txt", b"not hidden\n")])
    out["var/macosx.tar"] = corpus._tar([("__MACOSX/other.txt", b"junk\n"), ("summary.txt", b"tar summary\n")])
    s = docs.get("fx/pdf/sample.pdf")
    if s:
        out["var/sample-trunc.pdf"] = s[:5000]
    return out


def warm():
    global _docs, _base, _pool, _pdfs, _call_codes, _line_codes, _section_code, _sbx
    import importlib
    corpus.warm_all(extract=False)
    docs = dict(corpus.corpus())
    docs.update(_variants(docs))
    src = docs.get("fx/pdf/two_tables_horizontal.pdf")
    if src:
        for _t, _p, rec in K.run_forked([("aes", {"data": src, "data2": docs.get("fx/pdf/large_table_1.pdf")})], _aes_variants, run_timeout=180):
            if "_harness" not in rec:
                docs["var/aes128-emptypw.pdf"] = K.b64d(rec["AES-128"])
                docs["var/aes256-emptypw.pdf"] = K.b64d(rec["AES-256"])
                if rec.get("AES-256b"):
                    docs["var/aes256b-emptypw.pdf"] = K.b64d(rec["AES-256b"])
    _docs = docs
    _pdfs = sorted(n for n in docs if n.endswith(".pdf"))
    others = ["fx/modern_ms/headings.docx", "fx/modern_ms/mwe.xlsx", "fx/mails/basic_email.eml", "fx/archives/test_archive.7z",
              "fx/archives/sample.zip", "fx/html/sample.html", "fx/open_office/sample_document.odt", "fx/epub/sample.epub",
              "fx/legacy_ms/mwe.xls", "gen/a.tar.gz", "gen/a.rtf", "fx/modern_ms/pptx_table.pptx", "gen/att.eml",
              "gen/a.html", "gen/b.html", "gen/c.html", "gen/deeper.html", "gen/hebrew.html", "fx/html/large_complex.html", "fx/modern_ms/thesis-template.docx", "gen/a.mhtml", "gen/ragged.xlsx", "gen/a.docx",
              "var/macosx.zip", "var/plain.zip", "var/macosx.tar", "var/corrupt36.7z", "var/corrupt40.7z", "var/corrupt60.7z"]
    others += [n for n in docs if n.startswith("var/corrupt") and n not in others]
    # ... and every other corpus document of moderate size (all formats take part in histories and thread mixes)
    others += [n for n in sorted(docs) if n not in others and not n.endswith(".pdf") and len(docs[n]) < 400_000
               and not n.startswith(("gen/deep", "gen/deeper")) and "password" not in n]
    _pool = _pdfs + [o for o in others if o in docs]
    _families.clear()
    for n in _pool:
        if not n.endswith(".pdf"):
            _families.setdefault(_family_of(n), []).append(n)
    # isolated baselines: one extraction per fork, taken BEFORE anything was extracted in this process
    jobs = [(n, {"name": n}) for n in _pool]
    for tag, _p, rec in K.run_forked(jobs, lambda p: {"d": _extract_digest(p["name"], _docs[p["name"]])}, run_timeout=120):
        if "_harness" in rec:
            raise RuntimeError(f"baseline for {tag} failed: {rec}")
        _base[tag] = rec["d"]
    global _WARM_RESIDUE
    settings0 = _interp_settings()
    corpus.warm_all(extract=True)
    for n in _pool:  # fill every lazy cache the same way in the zygote
        if not (n.startswith("var/aes") or "password" in n):  # encrypted PDFs install a one-way AES patch: never in the zygote
            with K.cpu_guard(60):
                _extract_digest(n, _docs[n])
    settings1 = _interp_settings()
    _WARM_RESIDUE = [(k, settings0[k], settings1[k]) for k in settings0 if settings0[k] != settings1[k]]  # reported by every run
    # instrumentation targets
    mods = [m for name, m in sorted(sys.modules.items()) if m is not None and name.startswith("sharepoint2text") and ".tests" not in name]
    for extra in ("pypdf._page", "pypdf._cmap", "pypdf._font", "pypdf._text_extraction._layout_mode"):
        try:
            mods.append(importlib.import_module(extra))
        except Exception:
            pass
    seen = set()
    for m in mods:
        if m.__name__.endswith("_pypdf_aes_fallback"):
            # pure-Python AES: millions of calls per document; only its patch function is a pre-emption region
            for fname in ("patch_pypdf_fallback_aes", "_expand_key", "_get_round_keys", "aes_cbc_decrypt", "aes_cbc_encrypt", "aes_ecb_decrypt", "aes_ecb_encrypt"):
                f = getattr(m, fname, None)
                if f is not None and hasattr(f, "__code__"):
                    _call_codes.append(f.__code__)
                    if fname in ("patch_pypdf_fallback_aes", "_expand_key", "_get_round_keys"):
                        _line_codes.append(f.__code__)  # key schedule and its cache: line-level pre-emption
            continue
        for co in S.code_objects_of(m):
            if id(co) not in seen:
                seen.add(id(co))
                _call_codes.append(co)
    # entry points of the dependencies: where package code hands control to third-party code (and may be inside a
    # context manager / patched region of its own while it does) a real thread can be pre-empted too
    for modname, attrs in (("xlrd", ["open_workbook"]), ("xlrd.book", ["open_workbook_xls"]), ("olefile", ["OleFileIO.__init__", "OleFileIO.openstream", "isOleFile"]),
                           ("openpyxl.reader.excel", ["load_workbook"]), ("zipfile", ["ZipFile.__init__", "ZipFile.open", "ZipFile.read"]),
                           ("tarfile", ["TarFile.open", "TarFile.extractfile"]), ("pypdf", ["PdfReader.__init__"]), ("mailparser", ["parse_from_bytes", "parse_from_string"]),
                           ("defusedxml.ElementTree", ["fromstring", "parse", "iterparse"]), ("xml.etree.ElementTree", ["fromstring", "parse", "iterparse"]),
                           ("mimetypes", ["guess_type", "add_type"])):
        try:
            m = importlib.import_module(modname)
        except Exception:
            continue
        for a in attrs:
            f = m
            for part in a.split("."):
                f = getattr(f, part, None)
                if f is None:
                    break
            f = getattr(f, "__func__", f)
            co = getattr(f, "__code__", None)
            if co is not None and id(co) not in seen:
                seen.add(id(co))
                _call_codes.append(co)
    from sharepoint2text.parsing.extractors.pdf import pdf_extractor as pe
    crit_names = ["_patched_build_char_map", "_extract_text_with_spacing", "_ttf_get_glyph_features", "_get_pypdf_char_map_patcher"]
    for cn in crit_names:
        f = getattr(pe, cn, None)
        f = getattr(f, "__wrapped__", f)
        if f is not None and hasattr(f, "__code__"):
            _line_codes.append(f.__code__)
            if cn == "_patched_build_char_map":
                _section_code = f.__code__
    if _section_code is None:  # renamed: widen the region to the whole module
        _line_codes.extend(S.code_objects_of(pe))
    from sharepoint2text.parsing.extractors import archive_extractor as ae
    for cn in ("configure_archive_extraction",):
        f = getattr(ae, cn, None)
        if f is not None:
            _line_codes.append(f.__code__)
    _sbx = os.path.join(K.sandbox_root(), "c15tmp")
    os.makedirs(_sbx, exist_ok=True)


# ------------------------------------------------------------------------------------------------ generation
def gen_case(rng: random.Random, tier: str) -> dict:
    mode = rng.choices(["threads", "sequential", "section_enum", "cold", "first_import"], [4, 1, 2, 0.6, 0.7])[0]
    if mode == "first_import" and _families:
        # two threads meet at the very first use of a format in the process: its extractor module is not imported yet
        fam = rng.choice(sorted(_families))
        small = [n for n in _families[fam] if len(_docs[n]) < 200_000] or _families[fam]
        k = rng.choice([2, 2, 3])
        return {"mode": "threads", "first_import": True, "tasks": [[rng.choice(small)] for _ in range(k)], "sched_seed": rng.randrange(1 << 40), "p_call": 0.0, "p_line": 0.0,
                "line_granularity": False, "inject": None, "schedule": None, "change_points": sorted({rng.randrange(1, 120) for _ in range(rng.choice([1, 2]))})}
    if mode == "first_import":
        mode = "threads"
    if mode == "cold":
        # a fresh interpreter with lazy imports: [A..., B] against [B] alone (import-time and first-use side effects are history too)
        small = [n for n in _pool if len(_docs[n]) < 300_000 and not n.startswith("var/aes")] + [n for n in ("gen/server.log", "gen/settings.ini", "gen/deep.html",
                 "gen/a.txt", "gen/a.csv", "gen/a.md") if n in _docs]
        hist = [rng.choice(small) for _ in range(rng.choice([1, 2, 3]))]
        return {"mode": "cold", "tasks": [hist + [rng.choice(small)]], "sched_seed": 0, "p_call": 0.0, "p_line": 0.0, "line_granularity": False,
                "inject": None, "schedule": None}
    plain = [n for n in _pdfs if not n.startswith("var/aes")]

    def pick():
        r = rng.random()
        if r < 0.06:
            return rng.choice([n for n in _pdfs if n.startswith("var/aes")] or plain)
        return rng.choice(plain) if r < 0.5 else rng.choice(_pool)
    aes256 = [n for n in _pdfs if n.startswith("var/aes256")]
    if mode == "threads" and len(aes256) >= 2 and rng.random() < 0.08:
        # two threads decrypting with different keys (shared key-schedule cache)
        return {"mode": "threads", "tasks": [[aes256[0]], [aes256[1]]] if rng.random() < 0.5 else [[aes256[1]], [aes256[0]]], "sched_seed": rng.randrange(1 << 40),
                "p_call": rng.choice([1 / 5, 1 / 20, 1 / 100]), "p_line": rng.choice([1 / 2, 1 / 8, 1 / 40]), "line_granularity": False, "inject": None, "schedule": None}
    if mode == "section_enum":
        # systematic: k tasks, no random pre-emption; context switches exactly at chosen line events inside the patch section
        k = rng.choice([2, 2, 3])
        tasks = [[rng.choice(plain)] for _ in range(k)]
        nsw = rng.choice([1, 1, 2, 2, 3, 4])
        case = {"mode": "section_enum", "tasks": tasks, "sched_seed": rng.randrange(1 << 40), "p_call": 0.0, "p_line": 0.0,
                "line_granularity": False, "inject": None, "schedule": None, "sec_switch": sorted(rng.sample(range(0, 70), nsw))}
        return case
    fam = None
    if mode in ("threads", "sequential") and _families and rng.random() < 0.5:
        # every task works on documents of one format family (they share that format's module-level state), near-duplicates together
        fam = rng.choice(sorted(_families))
        members = _families[fam]

        def pick():  # noqa: F811
            n = rng.choice(members)
            twin = "var/neardup-" + os.path.basename(n)
            if twin in _docs and twin in members and rng.random() < 0.5:
                return rng.choice([n, twin])
            return n
    if mode == "sequential":
        tasks = [[pick() for _ in range(rng.randrange(2, 9))]]
    else:
        k = rng.choice([2, 2, 3, 3, 4])
        tasks = [[pick() for _ in range(rng.choice([1, 1, 2, 3]))] for _ in range(k)]
    case = {"mode": mode, "tasks": tasks, "sched_seed": rng.randrange(1 << 40),
            "p_call": rng.choice([1 / 20, 1 / 100, 1 / 500, 1 / 2000, 0.0]) if fam is None else rng.choice([1 / 2, 1 / 5, 1 / 20, 1 / 100]),
            "p_line": rng.choice([1 / 2, 1 / 3, 1 / 8, 1 / 30]),
            "line_granularity": tier == "thorough" and rng.random() < 0.3,
            "inject": None, "schedule": None}
    if rng.random() < 0.15:
        case["inject"] = {"call": rng.randrange(1, 12)}
    if fam is not None and mode == "threads" and rng.random() < 0.5:
        # first use: the extractor modules of these documents are re-executed before the threads start, so that whatever they build
        # lazily on first use (compiled patterns, lookup tables, caches) is built while the threads interleave
        case["cold_modules"] = True
        case["p_call"] = rng.choice([1 / 2, 1 / 3, 1 / 5])
        case["p_line"] = rng.choice([1 / 5, 1 / 20, 1 / 60])
    if mode == "threads" and rng.random() < (0.6 if case.get("cold_modules") else 0.25):
        # few, long-lived pre-emptions (PCT style): the only switches are at 1-3 seeded step numbers, and whoever gets the CPU keeps it --
        # a thread parked in the middle of building shared state stays parked while another one runs to completion
        d = rng.choice([1, 1, 2, 3])
        case["change_points"] = sorted({int(10 ** rng.uniform(0, 4.3)) for _ in range(d)})
        if case.get("cold_modules") and rng.random() < 0.6:
            case["change_points"] = [rng.randrange(1, 400)]  # first-use work happens in the first few hundred steps of a task
    return case


# ------------------------------------------------------------------------------------------------ state snapshot
_SIMPLE = (int, float, str, bytes, bool, type(None), tuple, frozenset)


def _snapshot():
    snap = {}
    for name, mod in list(sys.modules.items()):
        if mod is None or not name.startswith(WATCH_PREFIX):
            continue
        try:
            items = list(vars(mod).items())
        except Exception:
            continue
        for k, v in items:
            if k.startswith("__"):
                continue
            snap[(name, k)] = v
            if isinstance(v, type) and getattr(v, "__module__", None) == name:
                try:
                    for ck, cv in list(vars(v).items()):
                        if not ck.startswith("__") or ck in ("__init__", "__call__", "__getitem__"):
                            snap[(name, v.__name__ + "." + ck)] = cv
                except Exception:
                    pass
    return snap


def _is_pkg_defined(v) -> bool:
    f = getattr(v, "__func__", v)
    f = getattr(f, "__wrapped__", f)
    co = getattr(f, "__code__", None)
    if co is not None and co.co_filename.startswith(K.PKG):
        return True
    mod = getattr(v, "__module__", None)
    return isinstance(mod, str) and mod.startswith("sharepoint2text")


def _residue(before, after):
    out = []
    for key, old in before.items():
        new = after.get(key, "<deleted>")
        if new is old:
            continue
        if _is_pkg_defined(new) and not (new == old and isinstance(new, _SIMPLE)):
            depth = 0
            f = new
            # wrapper nesting depth (closure chain of package-defined wrappers)
            while depth < 50 and getattr(f, "__closure__", None):
                nxt = next((c.cell_contents for c in f.__closure__ if callable(getattr(c, "cell_contents", None))), None)
                if nxt is None:
                    break
                depth += 1
                f = nxt
            out.append((key[0], key[1], "package_code_installed", depth))
        elif isinstance(old, _SIMPLE) and isinstance(new, _SIMPLE) and old != new:
            out.append((key[0], key[1], "value_changed", repr(new)[:40]))
        elif new == "<deleted>":
            out.append((key[0], key[1], "deleted", 0))
    for key in after:
        if key not in before and _is_pkg_defined(after[key]):
            out.append((key[0], key[1], "package_code_added", 0))
    return sorted(out)


def _env_state():
    from sharepoint2text.parsing.extractors import archive_extractor as ae
    import logging
    import warnings
    cfg = ae._config
    import locale
    import signal
    um = os.umask(0o22)
    os.umask(um)
    return {
        "std_streams_and_hooks": [n for n, cur in (("stdout", sys.stdout), ("stderr", sys.stderr), ("stdin", sys.stdin), ("excepthook", sys.excepthook),
                                                   ("displayhook", sys.displayhook), ("threading.excepthook", threading.excepthook),
                                                   ("warnings.showwarning", warnings.showwarning)) if cur is not _STD0.get(n)],
        "locale": locale.setlocale(locale.LC_ALL), "umask": um, "gc_enabled": __import__("gc").isenabled(),
        "signal_handlers": [repr(signal.getsignal(sg)) for sg in (signal.SIGINT, signal.SIGTERM, signal.SIGALRM, signal.SIGPIPE)],
        "archive_config": repr(cfg),
        "codec_registry_probe": coldworker.env_fingerprint()["codec_registry_probe"],
        "sys_path": list(sys.path),
        "environ": hashlib.sha1(repr(sorted(os.environ.items())).encode()).hexdigest(),
        "cwd": os.getcwd(),
        "warnings_filters": len(warnings.filters),
        "logging_root": (logging.getLogger().level, len(logging.getLogger().handlers), logging.root.manager.disable),
        "tmp_listing": sorted(os.listdir(_sbx)),
        "fds": sorted(os.listdir("/proc/self/fd")).__len__(),
        "threads": sorted(t.name for t in threading.enumerate() if not t.name.startswith("sim-task-")),
        "tempdir": tempfile.tempdir,
        "recursionlimit": sys.getrecursionlimit(),
        "mimetypes": hashlib.sha1(repr(sorted(__import__("mimetypes")._db.types_map[1].items()) if __import__("mimetypes")._db else None).encode()).hexdigest()[:10],
        "decimal_prec": __import__("decimal").getcontext().prec,
        "csv_field_size_limit": __import__("csv").field_size_limit(),
        "socket_default_timeout": __import__("socket").getdefaulttimeout(),
    }


# ------------------------------------------------------------------------------------------------ execution
def _cold(docs):
    import subprocess
    spec = {"verif": K.VERIF, "docs": [{"name": n, "route": os.path.basename(n), "b64": K.b64e(_docs[n])} for n in docs]}
    env = dict(os.environ)
    env["PYTHONPATH"] = K.REPO + os.pathsep + K.VERIF
    p = subprocess.run([sys.executable, os.path.join(K.VERIF, "simkit", "coldworker.py")], input=__import__("json").dumps(spec), capture_output=True, text=True,
                       env=env, cwd="/", timeout=300)
    if p.returncode != 0:
        raise RuntimeError("coldworker failed: " + p.stderr[-1200:])
    return __import__("json").loads(p.stdout)


def _run_cold(case):
    log = K.EventLog()
    log.ev("case", K.h64(K.jdump(case)))
    docs = case["tasks"][0]
    target = docs[-1]
    alone = _cold([target])
    hist = _cold(docs)
    viol = []
    a, h = alone["docs"][-1], hist["docs"][-1]
    log.ev("cold", docs, a["digest"], h["digest"])
    if a["digest"] != h["digest"]:
        viol.append({"class": "result_differs_from_isolated", "sig": f"{os.path.basename(target)}|cold_history",
                     "detail": f"fresh interpreter: {target} alone -> {a['digest']}; after {docs[:-1]} -> {h['digest']}"})
    # interpreter-global settings: whatever the history changed must also be what the document alone changes (nothing, ideally)
    for k in hist["env0"]:
        before, after = hist["env0"][k], hist["docs"][-1]["env"][k]
        if before != after:
            viol.append({"class": "global_state_residue", "sig": f"interpreter_setting:{k}",
                         "detail": f"fresh interpreter extracting {docs}: {k} changed {before!r} -> {after!r}"})
    probes = {"cold_history": 1}
    return {"violations": viol, "digest": log.digest(), "steps": log.n, "evals": 2, "faults": {}, "probes": probes,
            "nontrivial": [f"cold|{hashlib.sha1(repr(docs).encode()).hexdigest()[:8]}"] if len(set(docs)) > 1 else [], "states": [log.digest()[:8]],
            "summary": {"mode": "cold", "docs": docs}}


def run_case(case: dict) -> dict:
    if case["mode"] == "cold":
        return _run_cold(case)
    log = K.EventLog()
    log.ev("case", K.h64(K.jdump({k: v for k, v in case.items() if k != "schedule"})))
    viol, probes, nontriv = [], {}, set()
    global _sbx
    _sbx = os.path.join(K.sandbox_root(), "c15tmp", str(os.getpid()))  # private temp root of this run
    os.makedirs(_sbx, exist_ok=True)
    tempfile.tempdir = _sbx
    sref = [None]
    sched = S.Sched(rng=random.Random(case["sched_seed"]) if not case.get("schedule") else None,
                    schedule=case.get("schedule"), p_call=case["p_call"], p_line=case["p_line"], log=log)
    if case.get("change_points"):
        sched.change_points = set(case["change_points"])
        probes["pct_style_schedule"] = 1
    sref[0] = sched
    locks = S.wrap_package_locks(lambda: sref[0])
    if case.get("schedule"):
        probes["replayed_by_schedule"] = 1
    names = [n for t in case["tasks"] for n in t]
    if any(n.startswith("var/aes") or (n.endswith(".pdf") and "password" in n) for n in names):
        probes["aes_pdf_in_workload"] = 1
    if any(not n.endswith(".pdf") for n in names):
        probes["mixed_formats"] = 1
    if any(n.endswith(".7z") for n in names):
        probes["archive_7z_in_workload"] = 1
    if any(_base.get(n, "").startswith("exc:") for n in names):
        probes["failing_input_in_history"] = 1
    if case["mode"] == "sequential":
        probes["sequential_history"] = 1

    # injected exception on the j-th PageObject.extract_text call (installed before the snapshot; stays)
    inj = case.get("inject")
    injected = {"n": 0, "fired": 0, "tasks": set()}
    if inj:
        import pypdf._page as pp
        orig = pp.PageObject.extract_text

        def extract_text(self, *a, **kw):
            injected["n"] += 1
            if injected["n"] == inj["call"]:
                injected["fired"] += 1
                t = sched.by_ident.get(threading.get_ident())
                if t is not None:
                    injected["tasks"].add(t.idx)
                raise RuntimeError("injected: extract_text failure")
            return orig(self, *a, **kw)

        pp.PageObject.extract_text = extract_text

    # critical-section bookkeeping from LINE events
    inside = {}
    proj = hashlib.sha1()
    sect = {"overlap": 0, "switch_inside": 0}
    sc = _section_code
    first_line = sc.co_firstlineno if sc is not None else -1

    sec_switch = set(case.get("sec_switch") or [])
    nsec = [0]

    def on_line(t, code, line):
        if code is sc:
            proj.update(f"{t.idx}:{line - first_line};".encode())
            if t.idx not in inside:
                inside[t.idx] = 0
            inside[t.idx] += 1
            if sec_switch:
                if nsec[0] in sec_switch and not sched.replay:
                    sched.force = True
                    probes["systematic_switch_in_section"] = probes.get("systematic_switch_in_section", 0) + 1
                nsec[0] += 1
    sched.on_line = on_line

    results = {}

    def mk(ti, docs):
        def body():
            out = []
            for n in docs:
                d = _extract_digest(n, _docs[n])
                gc.collect()  # deterministic point: lets object addresses be reused, as they would be under the cyclic GC
                log.ev("extracted", ti, n, d)
                out.append((n, d))
            return out
        return body

    for ti, docs in enumerate(case["tasks"]):
        sched.add(mk(ti, docs))

    extra_codes = []
    unloaded = []
    if case.get("first_import"):
        from sharepoint2text.parsing import router
        for docs in case["tasks"]:
            for n in docs:
                try:
                    modname = router.get_extractor(os.path.basename(n)).__module__
                except Exception:
                    continue
                if modname in sys.modules and modname.startswith("sharepoint2text.parsing.extractors") and modname not in unloaded:
                    unloaded.append(modname)
        for modname in unloaded:
            del sys.modules[modname]  # the next get_extractor() of this format imports it again, from scratch
        probes["first_import_of_extractor_module"] = len(unloaded)
    if case.get("cold_modules"):
        import importlib
        from sharepoint2text.parsing import router
        seen_mods = set()
        for docs in case["tasks"]:
            for n in docs:
                try:
                    modname = router.get_extractor(os.path.basename(n)).__module__
                except Exception:
                    continue
                if modname in seen_mods or modname not in sys.modules or not modname.startswith("sharepoint2text.parsing.extractors"):
                    continue
                seen_mods.add(modname)
                m2 = importlib.reload(sys.modules[modname])
                extra_codes += S.code_objects_of(m2)
        probes["first_use_of_reloaded_extractor_module"] = len(seen_mods)
    gc.collect()
    before = _snapshot()
    _remember_std()
    env_before = _env_state()
    ins = S.Instrument(sched)
    call_codes = _call_codes + extra_codes
    line_codes = list(_line_codes)
    if case.get("line_granularity"):
        from sharepoint2text.parsing.extractors.pdf import pdf_extractor as pe
        line_codes = line_codes + S.code_objects_of(pe)
    if extra_codes:
        line_codes = line_codes + extra_codes  # first use: a thread can lose the CPU between any two lines of the re-executed modules
    ins.install(call_codes, line_codes)
    coop = None
    if unloaded:
        ins.install_global(K.PKG + os.sep, p_module_switch=0.6)
        coop = S.CooperativeImportLocks(sched)
        coop.__enter__()
    try:
        status = sched.run(stall_s=100.0)
    finally:
        ins.remove()
        if coop is not None:
            coop.__exit__(None, None, None)
    if status == "stall":
        raise RuntimeError("HARNESS stall: a task did not reach a yield point within 100 s")
    gc.collect()
    after = _snapshot()
    env_after = _env_state()

    # overlap probes from the switch log: a switch while some task is inside the section
    # (approximation via LINE counts: >= 2 tasks produced section lines and switches happened between them)
    if len([1 for v in inside.values() if v]) >= 2:
        probes["two_tasks_in_charmap_section"] = 1
    if injected["fired"]:
        probes["exception_inside_section"] = 1
    if any(lk.waiters or False for lk in locks):
        pass
    contended = sum(1 for e in log.head if e.startswith("('block'"))
    if contended:
        probes["lock_contended"] = contended

    if status == "deadlock":
        viol.append({"class": "deadlock", "sig": "all_tasks_blocked", "detail": f"blocked: {sched.deadlock}"})
    # results vs isolated baselines
    for t in sched.tasks:
        if t.error is not None:
            viol.append({"class": "task_crashed", "sig": type(t.error).__name__, "detail": repr(t.error)[:300]})
            continue
        for (n, d) in (t.result or []):
            if inj and (t.idx in injected["tasks"] or case["mode"] == "sequential"):
                continue  # an injected failure legitimately takes the fallback path: result oracle off for that task
            if d != _base[n]:
                kind = "outcome" if d.split(":")[0] != _base[n].split(":")[0] or d.startswith("exc:") else "content"
                viol.append({"class": "result_differs_from_isolated", "sig": f"{os.path.basename(n)}|{kind}",
                             "detail": f"task {t.idx} {n}: {d} vs isolated baseline {_base[n]}; mode={case['mode']} tasks={case['tasks']}"})
    # state at quiescence
    res = _residue(before, after)
    if res:
        groups = {}
        for mod, attr, kind, extra in res:
            groups.setdefault((mod, attr, kind), extra)
        sig = ";".join(f"{m}.{a}:{k}" for (m, a, k) in sorted(groups))
        viol.append({"class": "global_state_residue", "sig": hashlib.sha1(sig.encode()).hexdigest()[:10] + "|" + sig,
                     "detail": f"third-party attributes not restored at quiescence: {res[:8]}"})
    for k in env_before:
        if env_before[k] != env_after[k]:
            viol.append({"class": "global_state_residue", "sig": f"env:{k}", "detail": f"{k}: {str(env_before[k])[:200]} -> {str(env_after[k])[:200]}"})
    for k, a, b in _WARM_RESIDUE:
        viol.append({"class": "global_state_residue", "sig": f"interpreter_setting:{k}|after_sequential_warmup",
                     "detail": f"extracting every pool document once, sequentially (the zygote warm-up, incl. failing inputs), left {k} changed: {a!r} -> {b!r}"})
    if sched.overrun:
        probes["step_cap_reached_preemption_off"] = 1  # all tasks still finished (run() returned); only pre-emption stopped

    schedule = sched.schedule()
    nsw = len(schedule["switches"])
    log.ev("end", status, nsw, sched.step)
    overlapped = probes.get("two_tasks_in_charmap_section")
    if (overlapped and nsw) or (case["mode"] == "sequential" and len(set(names)) > 1):
        nontriv.add(proj.hexdigest()[:10] + "|" + hashlib.sha1(repr([(s % 97, t) for s, t in schedule["switches"][:40]]).encode()).hexdigest()[:8]
                    + "|" + hashlib.sha1(repr(case["tasks"]).encode()).hexdigest()[:6])
    out_case = None
    if viol:
        out_case = dict(case, schedule=schedule)
        for v in viol:
            v["case"] = out_case
    return {"violations": viol, "digest": log.digest(), "steps": sched.step, "evals": 1, "faults": {"injected_extract_text_exception": injected["fired"],
            "context_switch": nsw}, "probes": probes, "nontrivial": sorted(nontriv), "states": [proj.hexdigest()[:10]],
            "summary": {"status": status, "switches": nsw, "steps": sched.step, "tasks": case["tasks"]}}


# ------------------------------------------------------------------------------------------------ shrinking
def shrink(case):
    if case["mode"] == "cold":
        h = case["tasks"][0]
        for i in range(len(h) - 1):
            yield dict(case, tasks=[h[:i] + h[i + 1:]])
        return
    tasks = case["tasks"]
    sch = case.get("schedule")
    # fewer tasks / fewer documents (schedule becomes invalid -> regenerate from the seed)
    if len(tasks) > 1:
        for i in range(len(tasks)):
            yield dict(case, tasks=tasks[:i] + tasks[i + 1:], schedule=None)
    for i, t in enumerate(tasks):
        if len(t) > 1:
            for j in range(len(t)):
                yield dict(case, tasks=tasks[:i] + [t[:j] + t[j + 1:]] + tasks[i + 1:], schedule=None)
    if case.get("inject"):
        yield dict(case, inject=None, schedule=None)
    if case.get("line_granularity"):
        yield dict(case, line_granularity=False, schedule=None)
    # fewer context switches in the recorded schedule
    if case.get("sec_switch") and len(case["sec_switch"]) > 1 and not sch:
        for i in range(len(case["sec_switch"])):
            yield dict(case, sec_switch=case["sec_switch"][:i] + case["sec_switch"][i + 1:])
    if sch and sch["switches"]:
        sw = sch["switches"]
        n = len(sw)
        chunk = max(1, n // 2)
        while chunk >= 1:
            for s in range(0, n, chunk):
                c = sw[:s] + sw[s + chunk:]
                yield dict(case, schedule={"switches": c, "forced": sch["forced"]})
            if chunk == 1:
                break
            chunk //= 2
