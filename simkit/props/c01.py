"""C01 -- stable failure surface and termination for arbitrary bytes (engine iosim, DESIGN.md 3.C01)."""
from __future__ import annotations

import os
import random
import re
import shutil

from .. import iosim
from .. import kernel as K

ID = "C01"
ENGINE = "iosim"
LEVEL = "exploration"
BUDGET = {"quick": 90, "thorough": 1200}
RUN_TIMEOUT = 90
SHRINK_TIMEOUT = 90
SELFTEST_PAIRS = {"quick": 16, "thorough": 40}
BUDGET_CLASSES = ("hang", "interpreter_crash")
CPU_FLOOR_S = 30.0
AS_CAP = 4 << 30
PROBES = ["entry_direct", "entry_read_file", "entry_cli", "entry_archive_zip", "entry_archive_tar", "entry_attachment", "misdirected_route", "alias_route",
          "s2_member_fault", "s2_ole_stream_fault", "accepted_after_fault", "rejected_with_family_error", "cli_exit_1", "cli_exit_0", "nonzero_start_position", "fault_free", "cli_special_input_missing", "cli_special_input_directory", "cli_special_input_empty"]
RULE = ("one run = one corpus document (all 21 extractors; fixtures + stdlib-written seeds) with 0-3 storage / member-read faults, one entry point "
        "(direct, read_file, CLI, ZIP/TAR member, e-mail attachment), one route (own extension, alias, foreign extension) and a stream start "
        "position; distinct non-trivial = (extractor route, entry, first fault kind, outcome class, function-set signature) where a fault was applied")
ASSUMPTIONS = [
    "byte-content faults only: stream objects that raise, closed streams and vanishing files are outside the statement",
    "termination oracle = CPU budget max(30 s, 300 x fault-free CPU of the base document) enforced with RLIMIT_CPU, and a 90 s wall kill; candidates must reproduce twice alone",
    "address space is capped at +4 GiB per run; MemoryError escaping is reported as a non-family exception like any other",
    "logging and warnings are silenced in the simulation child, except around CLI runs, which get the diagnostics state of a freshly started interpreter (log records >= WARNING reach stderr through logging.lastResort)",
]
COMPONENTS = {"real": ["all 21 extractors and their third-party parsers", "sharepoint2text.read_file", "sharepoint2text.cli.main (in-process)",
                       "archive_extractor member loop", "EmailContent.iterate_supported_attachments"],
              "stub": ["the block device holding the file (S1 faults)", "container member reads (S2 faults on re-stored members)", "sandbox directory for read_file/CLI inputs"]}


def warm():
    iosim.warm(measure_cpu=True)


def gen_case(rng: random.Random, tier: str) -> dict:
    c = iosim.gen_case(rng, tier, fault_free_p=0.08, s2_bias=0.5)
    if c["entry"] == "cli" and rng.random() < 0.12:
        c["special"] = rng.choice(["missing", "directory", "empty"])  # not a readable document at all: still exit 1 / one line
        c["ops"] = []
    if c["entry"] in ("archive_zip", "archive_tar") and rng.random() < 0.4:
        c["after_same"] = True  # the member after the damaged one is the undamaged document of the same format: it must still come out
    return c


def classify_harness(rec, payload):
    """a child killed by the CPU limit / the wall cap is a termination candidate"""
    stack = rec.get("stack") or ""
    if rec.get("_harness") == "timeout" or (rec.get("_harness") == "crash" and rec.get("signal") in (9, 24)):
        return {"class": "hang", "sig": iosim.stack_signature(stack), "detail": f"child killed ({rec.get('_harness')}, signal {rec.get('signal')}, wall {rec.get('wall', 0):.0f}s); stack: {stack[-700:]}"}
    if rec.get("_harness") == "crash" and rec.get("signal") in (11, 6, 7):
        return {"class": "interpreter_crash", "sig": f"signal{rec.get('signal')}|" + iosim.stack_signature(stack), "detail": stack[-900:]}
    return None


def run_case(case: dict) -> dict:
    from sharepoint2text.parsing.exceptions import ExtractionError
    log = K.EventLog()
    log.ev("case", K.h64(K.jdump(case)))
    viol, probes = [], {}
    sbx = os.path.join(K.sandbox_root(), f"c01-{os.getpid()}")
    os.makedirs(sbx, exist_ok=True)
    base = iosim.base_cpu(case["doc"])
    iosim.arm_budgets(max(CPU_FLOOR_S, 300 * base), AS_CAP)
    fs = K.FuncSet((K.PKG + os.sep,))
    fs.start()
    try:
        out = iosim.execute(case, sbx)
    finally:
        iosim.disarm_as()
        fsig = fs.stop()
        shutil.rmtree(sbx, ignore_errors=True)
    entry = case["entry"]
    own = iosim.ext_of(case["doc"])
    route = case["route"].lower()
    probes["entry_" + entry] = 1
    if not case["ops"]:
        probes["fault_free"] = 1
    if any(op and op[0] in ("zip", "tar") for op in case["ops"]):
        probes["s2_member_fault"] = 1
    if route != own:
        probes["alias_route" if any(own in ([k] + v) and route in ([k] + v) for k, v in iosim.ALIASES.items()) else "misdirected_route"] = 1
    if getattr(out, "ole_fired", None):
        probes["s2_ole_stream_fault"] = 1
    if case.get("pos") and entry == "direct":
        probes["nonzero_start_position"] = 1
    if case.get("ole"):
        kind0 = "ole:" + case["ole"][1][0]
    elif case["ops"]:
        kind0 = case["ops"][0][0] + (":" + case["ops"][0][2][0] if case["ops"][0][0] == "zip" else "")
    else:
        kind0 = "none"
    outcome = "ok"
    if case.get("special"):
        probes["cli_special_input_" + case["special"]] = 1
    if entry == "cli":
        rc, so, se = out.rc, out.stdout or "", out.stderr or ""
        if out.exc is not None:
            outcome = "cli_exception"
            viol.append({"class": "cli_raised", "sig": f"{type(out.exc).__name__}|{iosim.innermost_frame(out.exc)}",
                         "detail": f"cli.main raised {out.exc!r} for a {own} document routed as .{route} flags={case['flags']}"})
        elif rc == 0:
            outcome = "cli_0"
            probes["cli_exit_0"] = 1
            if not so:
                viol.append({"class": "cli_contract", "sig": "exit0_empty_stdout", "detail": f"exit 0 but nothing on stdout (flags={case['flags']})"})
        elif rc == 1:
            outcome = "cli_1"
            probes["cli_exit_1"] = 1
            if so:
                first = re.sub(r"\d+", "N", so.strip().splitlines()[0][:40]) if so.strip() else "whitespace"
                viol.append({"class": "cli_contract", "sig": "exit1_with_stdout|" + first, "detail": f"exit 1 but stdout holds {len(so)} chars: {so[:80]!r}; stderr={se[:200]!r} flags={case['flags']}"})
            if se.count("\n") != 1 or not se.endswith("\n") or not se.strip():
                viol.append({"class": "cli_contract", "sig": "exit1_stderr_not_one_line", "detail": f"stderr is not exactly one line: {se[:300]!r}"})
        else:
            outcome = f"cli_{rc}"
            viol.append({"class": "cli_contract", "sig": f"exit_code_{rc}", "detail": f"exit code {rc}; stdout={so[:80]!r} stderr={se[:200]!r}"})
    else:
        if out.exc is None:
            outcome = "accepted" if out.results else "accepted_empty"
            if (case["ops"] or case.get("ole")) and out.results:
                probes["accepted_after_fault"] = 1
        elif isinstance(out.exc, ExtractionError):
            outcome = "family:" + type(out.exc).__name__
            probes["rejected_with_family_error"] = 1
        else:
            outcome = "escape:" + type(out.exc).__name__
            viol.append({"class": "non_family_exception", "sig": f"{out.where}|{type(out.exc).__name__}|{iosim.innermost_frame(out.exc)}",
                         "detail": f"{type(out.exc).__name__}: {str(out.exc)[:200]!r} escaped {out.where} for a {own} document routed as .{route} "
                                   f"(entry {entry}, ops {case['ops'][:2]})"})
    log.ev("outcome", entry, route, outcome, len(out.results))
    nontriv = [f"{route}|{entry}|{kind0}|{outcome.split(':')[0]}|{fsig}"] if (case["ops"] or case.get("ole")) else []
    faults = {}
    for op in case["ops"]:
        k = op[0] + (":" + op[2][0] + ((":" + op[2][1][0]) if op[2][0] == "edit" else "") if op[0] in ("zip", "tar") else "")
        faults[k] = faults.get(k, 0) + 1
    return {"violations": viol, "digest": log.digest(), "steps": log.n, "evals": 1, "faults": faults, "probes": probes, "nontrivial": nontriv,
            "states": [f"{route}|{entry}|{outcome}|{fsig}"], "summary": {"doc": case["doc"], "entry": entry, "route": route, "outcome": outcome, "cpu": round(out.cpu, 3)}}


def shrink(case):
    ops = case["ops"]
    if case.get("ole"):
        yield dict(case, ole=None)
    for i in range(len(ops)):
        yield dict(case, ops=ops[:i] + ops[i + 1:])
    if case["entry"] != "direct" and case["entry"] != "cli":
        yield dict(case, entry="direct")
    if case.get("pos"):
        yield dict(case, pos=0)
    if case.get("flags"):
        yield dict(case, flags=[])
    if case.get("path_kind") != "none":
        yield dict(case, path_kind="none")
    for i, op in enumerate(ops):
        if op[0] == "flip" and len(op[1]) > 1:
            for j in range(len(op[1])):
                yield dict(case, ops=ops[:i] + [["flip", op[1][:j] + op[1][j + 1:]]] + ops[i + 1:])
        if op[0] == "trunc" and op[1] > 0:
            # bisect towards the latest truncation point that still fails is not needed: try a few earlier / later points
            for q in (op[1] // 2, op[1] - 1):
                if 0 <= q != op[1]:
                    yield dict(case, ops=ops[:i] + [["trunc", q]] + ops[i + 1:])
