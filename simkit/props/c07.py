"""C07 -- routing: is_supported_file <=> get_extractor; the extension decides (engine envsim, DESIGN.md 2.6 / 3.C07)."""
from __future__ import annotations

import io
import mimetypes
import os
import random

from .. import corpus
from .. import kernel as K

ID = "C07"
ENGINE = "envsim"
LEVEL = "exploration"
BUDGET = {"quick": 30, "thorough": 300}
RUN_TIMEOUT = 120
SELFTEST_PAIRS = {"quick": 12, "thorough": 30}
PROBES = ["empty_mime_db", "hostile_mime_db", "reinit_from_sandbox_file", "decision_only_via_mime_fallback", "compound_extension", "url_like_path",
          "read_file_dispatch_checked", "archive_member_dispatch_checked", "attachment_dispatch_checked", "case_variant_checked", "symlink_path",
          "trailing_separator_path", "history_revisits_path_after_db_change", "every_mapped_mime_on_unknown_ext", "cold_process_routing", "dispatch_with_foreign_content", "encoding_suffix_path"]
RULE = ("one run = a history of 20-60 operations interleaving routing calls (is_supported_file / get_extractor / read_file / archive member / "
        "e-mail attachment routing) on generated path strings with perturbations of the host MIME database (emptied, hostile overrides, re-init "
        "from a sandbox mime.types, restored), cwd changes and sandbox files; distinct non-trivial = (extension class, path shape, database "
        "state, call kind) where the path has an extension the router or the platform database knows")
ASSUMPTIONS = [
    "relational oracle: support is never predicted for an extension the check does not know; only agreement, database-independence of "
    "extension-made decisions, case/alias invariance and the README table are demanded",
    "README supported-format tables were transcribed at design time (DOCUMENTED below)",
    "the MIME database is perturbed through the public mimetypes API and by replacing mimetypes._db (what init() does)",
]
COMPONENTS = {"real": ["sharepoint2text.parsing.router (is_supported_file, get_extractor, tables)", "sharepoint2text.parsing.mime_types", "sharepoint2text.read_file",
                       "archive_extractor member routing (_should_skip_file, cached lookups)", "EmailContent.iterate_supported_attachments", "stdlib mimetypes"],
              "stub": ["host MIME database content (mime.types files, add_type overrides)", "cwd and sandbox files", "extractor bodies (spies) for dispatch checks"]}

# README.md "Supported Formats" tables: extension -> extractor function (qualified name suffix)
DOCUMENTED = {
    "doc": "doc_extractor.read_doc", "dot": "doc_extractor.read_doc", "xls": "xls_extractor.read_xls", "xlt": "xls_extractor.read_xls",
    "ppt": "ppt_extractor.read_ppt", "pot": "ppt_extractor.read_ppt", "pps": "ppt_extractor.read_ppt", "rtf": "rtf_extractor.read_rtf",
    "docx": "docx_extractor.read_docx", "docm": "docx_extractor.read_docx", "dotx": "docx_extractor.read_docx", "dotm": "docx_extractor.read_docx",
    "xlsx": "xlsx_extractor.read_xlsx", "xlsm": "xlsx_extractor.read_xlsx", "xltx": "xlsx_extractor.read_xlsx", "xltm": "xlsx_extractor.read_xlsx",
    "pptx": "pptx_extractor.read_pptx", "pptm": "pptx_extractor.read_pptx", "potx": "pptx_extractor.read_pptx", "potm": "pptx_extractor.read_pptx",
    "ppsx": "pptx_extractor.read_pptx", "ppsm": "pptx_extractor.read_pptx",
    "odt": "odt_extractor.read_odt", "ott": "odt_extractor.read_odt", "odp": "odp_extractor.read_odp", "otp": "odp_extractor.read_odp",
    "ods": "ods_extractor.read_ods", "ots": "ods_extractor.read_ods", "odg": "odg_extractor.read_odg", "odf": "odf_extractor.read_odf",
    "eml": "eml_email_extractor.read_eml_format_mail", "msg": "msg_email_extractor.read_msg_format_mail", "mbox": "mbox_email_extractor.read_mbox_format_mail",
    "txt": "plain_extractor.read_plain_text", "md": "plain_extractor.read_plain_text", "csv": "plain_extractor.read_plain_text",
    "tsv": "plain_extractor.read_plain_text", "json": "plain_extractor.read_plain_text",
    "pdf": "pdf_extractor.read_pdf", "html": "html_extractor.read_html", "htm": "html_extractor.read_html",
    "mhtml": "mhtml_extractor.read_mhtml", "mht": "mhtml_extractor.read_mhtml", "epub": "epub_extractor.read_epub",
    "zip": "archive_extractor.read_archive", "7z": "archive_extractor.read_archive", "tar": "archive_extractor.read_archive",
    "tar.gz": "archive_extractor.read_archive", "tgz": "archive_extractor.read_archive", "gz": "archive_extractor.read_archive",
    "tar.bz2": "archive_extractor.read_archive", "tbz2": "archive_extractor.read_archive", "bz2": "archive_extractor.read_archive",
    "tar.xz": "archive_extractor.read_archive", "txz": "archive_extractor.read_archive", "xz": "archive_extractor.read_archive",
}
ALIAS_PAIRS = [("htm", "html"), ("mht", "mhtml"), ("dot", "doc"), ("dotx", "docx"), ("dotm", "docm"), ("xlt", "xls"), ("xltx", "xlsx"), ("xltm", "xlsm"),
               ("pot", "ppt"), ("potx", "pptx"), ("potm", "pptm"), ("pps", "ppt"), ("ppsx", "pptx"), ("ppsm", "pptm"), ("ott", "odt"), ("ots", "ods"),
               ("otp", "odp"), ("tgz", "tar.gz"), ("tbz2", "tar.bz2"), ("txz", "tar.xz"), ("gz", "tgz"), ("bz2", "tbz2"), ("xz", "txz")]

_platform_exts: list[str] = []
_router_exts: list[str] = []
_default_db = None


def warm():
    global _platform_exts, _router_exts, _default_db
    corpus.warm_all(extract=True)
    mimetypes.init()
    _default_db = mimetypes._db
    ex = set()
    for tm in mimetypes._db.types_map:
        ex.update(k.lstrip(".") for k in tm)
    ex.update(k.lstrip(".") for k in mimetypes._db.suffix_map)
    ex.update(k.lstrip(".") for k in mimetypes._db.encodings_map)
    _platform_exts = sorted(e for e in ex if e)
    _router_exts = corpus.all_extensions()


# ------------------------------------------------------------------------------------------------ generation
QQ_EXTS = ["qqlog", "qqpdf", "qqcsv", "qqhtml", "qqhtm", "qqjson"]
STEMS = ["report", "a b", "", ".", "..", "x.y", "ünï", "日本", "con", " lead", "trail ", "a.tar", "file.docx", "UPPER", "-dash", "%41", "q?x=1", "h#frag",
         "semi;colon", "tab\tname", "nl\nname", "*"]
DIRS = ["", "dir/", "data: text/html,", "data:Text/Plain;charset=utf-8,", "/abs/dir/", "a\\b\\", "./", "../", "dir.d/", "dir.docx/", "C:\\Users\\x\\", "~/", "http://host/path/", "https://h.example/a.pdf/",
        "file:///tmp/", "archive.zip!/", "archive.zip!/sub/", "data:text/plain,", "//server/share/", "d i r/", "nightly.tar.gz.extracted/", "site.TAR.XZ.d/",
        "x.tar.bz2.unpacked/sub/", "dump.tar.gz."]
TAILS = ["", "", "", "", "/", "/.", " ", ".", "?x=1", "#frag", "?download=1&name=a.pdf", "\\", "\n", ";", ":", "~", ".bak"]


ENCODING_SUFFIXES = ["br", "gz", "Z", "bz2", "xz", "zst"]
# what a file named like one format may really hold: routing is by name, so the bytes must never matter
CONTENTS = [b"content\n", b"{\\rtf1\\ansi hello}", b"%PDF-1.4\n%%EOF\n", b"PK\x03\x04" + b"\0" * 26, b"\xd0\xcf\x11\xe0\xa1\xb1\x1a\xe1" + b"\0" * 504,
            b"<html><body>x</body></html>", b"From: a@b\nSubject: s\n\nbody\n", b"7z\xbc\xaf\x27\x1c" + b"\0" * 26, b"\x1f\x8b\x08" + b"\0" * 15, b""]


def _case_variant(rng, s: str) -> str:
    return "".join(c.upper() if rng.random() < 0.5 else c.lower() for c in s)


def _gen_path(rng) -> dict:
    src = rng.choices(["doc", "router", "platform", "near", "random", "none", "encoded"], [5, 3, 3, 2, 1, 1, 1])[0]
    if src == "doc":
        ext = rng.choice(sorted(DOCUMENTED))
    elif src == "encoded":
        # a content-encoding suffix after a real extension (mimetypes.guess_type strips it and reports an encoding)
        ext = rng.choice(sorted(DOCUMENTED) + _router_exts) + "." + rng.choice(ENCODING_SUFFIXES)
    elif src == "router":
        ext = rng.choice(_router_exts)
    elif src == "platform":
        ext = rng.choice(_platform_exts)
    elif src == "near":
        base = rng.choice(sorted(DOCUMENTED))
        ext = rng.choice([base + "x", base[:-1], "x" + base, base + "~", base + " ", base + ".", base.replace(".", ""), base + ".txt", "tar." + base, base + "/x"])
    elif src == "random" and rng.random() < 0.4:
        ext = rng.choice(QQ_EXTS)  # extensions only a hostile MIME database knows (see HOSTILE)
    elif src == "random":
        ext = "".join(rng.choice("abcdxyz0179_-") for _ in range(rng.randrange(1, 6)))
    else:
        ext = ""
    cs = rng.choice(["lower", "lower", "upper", "mixed", "title"])
    e2 = {"lower": ext.lower(), "upper": ext.upper(), "mixed": _case_variant(rng, ext), "title": ext.title()}[cs]
    stem = rng.choice(STEMS)
    d = rng.choice(DIRS)
    tail = rng.choice(TAILS)
    path = f"{d}{stem}{'.' if ext else ''}{e2}{tail}"
    proper = bool(stem.strip(". ")) and not stem.endswith(".")  # a last component that is only ".ext" is a dot-file without extension
    return {"path": path, "ext": ext, "src": src, "shape": f"{'dir' if d else 'bare'}|{'tail' if tail else 'plain'}|{cs}|{'stem' if proper else 'nostem'}"}


HOSTILE = [("application/pdf", ".docx"), ("text/plain", ".exe"), ("application/zip", ".txt"), ("text/html", ".pdf"), ("application/msword", ".xyz"),
           ("application/pdf", ".unknownext"), ("message/rfc822", ".html"), ("application/x-tar", ".doc"), ("text/csv", ".bin"), ("text/plain", ""),
           ("application/vnd.ms-excel", ".docx "), ("application/json", ".tar.gz"), ("text/plain", ".gz"), ("application/epub+zip", ".zip"),
           # non-canonical spellings a hand-edited mime.types may hold: only an exact key may count, in both entry points alike
           ("Text/Plain", ".qqlog"), ("application/PDF", ".qqpdf"), ("text/csv; charset=utf-8", ".qqcsv"), (" text/html", ".qqhtml"), ("TEXT/HTML ", ".qqhtm"),
           ("application/json;q=1", ".qqjson")]


def gen_case(rng: random.Random, tier: str) -> dict:
    if rng.random() < 0.04:
        # cold process: the MIME database is perturbed BEFORE any extractor module is imported (they load lazily on first routing)
        exts = rng.sample(sorted(DOCUMENTED), rng.choice([6, 12, len(DOCUMENTED)]))
        return {"cold": True, "db": rng.choice(["empty", "empty", "hostile", "default"]), "hostile": rng.sample(range(len(HOSTILE)), 3), "exts": exts}
    if rng.random() < 0.12:
        # name/content matrix: files named like one documented format and holding the bytes of another, through every dispatching entry
        ops = []
        if rng.random() < 0.3:
            ops.append(["db", rng.choice(["empty", "hostile"])] + ([rng.sample(range(len(HOSTILE)), 2)] if ops == [] and False else []))
            if ops[-1][1] == "hostile":
                ops[-1].append(rng.sample(range(len(HOSTILE)), 2))
        for _ in range(rng.randrange(20, 41)):
            ext = rng.choice(sorted(DOCUMENTED))
            cs = rng.choice(["lower", "lower", "upper", "title"])
            e2 = {"lower": ext, "upper": ext.upper(), "title": ext.title()}[cs]
            ops.append(["dispatch", f"{rng.choice(['memo', 'Report 1', 'x.y'])}.{e2}", rng.choice(["read_file", "read_file", "archive", "attachment", "symlink"]),
                        rng.randrange(1, len(CONTENTS))])
        return {"ops": ops}
    ops = []
    paths = [_gen_path(rng) for _ in range(rng.randrange(6, 16))]
    for _ in range(rng.randrange(20, 61)):
        r = rng.random()
        if r < 0.62:
            p = rng.choice(paths)
            ops.append(["route", p["path"], p["ext"], p["src"], p["shape"]])
        elif r < 0.70:
            ops.append(["db", "empty"])
        elif r < 0.78:
            ops.append(["db", "hostile", rng.sample(range(len(HOSTILE)), rng.choice([1, 2, 4]))])
        elif r < 0.80:
            ops.append(["db", "all_mapped"])
            for _ in range(rng.choice([2, 4, 8])):
                i = rng.randrange(200)
                ops.append(["route", f"dir/file.zq{i}", f"zq{i}", "mapped", "dir|plain|lower|stem"])
        elif r < 0.83:
            lines = [f"{t}\t{e.lstrip('.')}" for t, e in rng.sample(HOSTILE, 3) if e.strip(". ")]
            ops.append(["db", "reinit", lines])
        elif r < 0.90:
            ops.append(["db", "default"])
        elif r < 0.94:
            ops.append(["chdir", rng.choice(["cwd", "cwd/sub", "."])])
        else:
            p = rng.choice(paths)
            ops.append(["dispatch", p["path"], rng.choice(["read_file", "archive", "attachment", "symlink"]), rng.randrange(len(CONTENTS))])
    return {"ops": ops}


# ------------------------------------------------------------------------------------------------ execution
def _set_db(kind, arg, sbx):
    if kind == "empty":
        db = mimetypes.MimeTypes(filenames=())
        db.types_map = ({}, {})
        db.types_map_inv = ({}, {})
        db.suffix_map = {}
        db.encodings_map = {}
        mimetypes._db = db
        mimetypes.inited = True
        _sync_module_tables(db)
    elif kind == "default":
        mimetypes._db = _default_db
        mimetypes.inited = True
        _sync_module_tables(_default_db)
    elif kind == "hostile":
        if mimetypes._db is None:
            mimetypes.init()
        for i in arg:
            t, e = HOSTILE[i]
            try:
                mimetypes.add_type(t, e, strict=True)
            except Exception:
                pass
    elif kind == "all_mapped":
        # every MIME type the library claims to map, attached to an extension nobody knows: support must mean an extractor exists
        from sharepoint2text.parsing.mime_types import MIME_TYPE_MAPPING
        if mimetypes._db is None:
            mimetypes.init()
        for i, mt in enumerate(sorted(MIME_TYPE_MAPPING)):
            try:
                mimetypes.add_type(mt, f".zq{i}", strict=True)
            except Exception:
                pass
    elif kind == "reinit":
        p = os.path.join(sbx, "mime.types")
        with open(p, "w") as f:
            f.write("\n".join(arg) + "\n")
        mimetypes.init(files=[p])


def _sync_module_tables(db):
    mimetypes.types_map = db.types_map[True]
    mimetypes.common_types = db.types_map[False]
    mimetypes.suffix_map = db.suffix_map
    mimetypes.encodings_map = db.encodings_map


def _decide(path):
    """(supported?, extractor qualified name | exception type name)"""
    from sharepoint2text.parsing.exceptions import ExtractionFileFormatNotSupportedError
    from sharepoint2text.parsing.router import get_extractor, is_supported_file
    try:
        s = is_supported_file(path)
    except Exception as e:
        s = "EXC:" + type(e).__name__
    try:
        f = get_extractor(path)
        g = ("ok", f"{f.__module__.rsplit('.', 1)[-1]}.{f.__name__}", f)
    except ExtractionFileFormatNotSupportedError:
        g = ("unsupported", None, None)
    except Exception as e:
        g = ("EXC", type(e).__name__, None)
    return s, g


COLD_WORKER = '''
import json, os, sys, mimetypes
spec = json.load(sys.stdin)
result_out = os.fdopen(os.dup(1), "w"); os.dup2(2, 1)  # result on a private copy of fd 1; prints of the code under test go to stderr
import logging, warnings
logging.disable(logging.CRITICAL); warnings.simplefilter("ignore")
mimetypes.init()
if spec["db"] == "empty":
    db = mimetypes.MimeTypes(filenames=())
    db.types_map = ({}, {}); db.types_map_inv = ({}, {}); db.suffix_map = {}; db.encodings_map = {}
    mimetypes._db = db; mimetypes.inited = True
    mimetypes.types_map = db.types_map[True]; mimetypes.common_types = db.types_map[False]; mimetypes.suffix_map = db.suffix_map; mimetypes.encodings_map = db.encodings_map
elif spec["db"] == "hostile":
    for t, e in spec["pairs"]:
        try: mimetypes.add_type(t, e, strict=True)
        except Exception: pass
from sharepoint2text.parsing.router import get_extractor, is_supported_file
from sharepoint2text.parsing.exceptions import ExtractionFileFormatNotSupportedError
out = []
for ext in spec["exts"]:
    p = "dir/file." + ext
    try: s = bool(is_supported_file(p))
    except Exception as e: s = "EXC:" + type(e).__name__
    try:
        f = get_extractor(p); g = f.__module__.rsplit(".", 1)[-1] + "." + f.__name__
    except ExtractionFileFormatNotSupportedError: g = None
    except Exception as e: g = "EXC:" + type(e).__name__ + ":" + str(e)[:80]
    out.append([ext, s, g])
json.dump(out, result_out); result_out.flush()
'''


def _run_cold(case):
    import subprocess
    import sys
    log = K.EventLog()
    log.ev("case", K.h64(K.jdump(case)))
    spec = {"db": case["db"], "pairs": [list(HOSTILE[i]) for i in case["hostile"]], "exts": case["exts"]}
    env = dict(os.environ)
    env["PYTHONPATH"] = K.REPO + os.pathsep + K.VERIF
    p = subprocess.run([sys.executable, "-c", COLD_WORKER], input=__import__("json").dumps(spec), capture_output=True, text=True, env=env, cwd="/", timeout=120)
    if p.returncode != 0:
        raise RuntimeError("cold routing worker failed: " + p.stderr[-1000:])
    viol = []
    for ext, s, g in __import__("json").loads(p.stdout):
        log.ev("cold", case["db"], ext, s, g)
        if isinstance(s, str) or (isinstance(g, str) and g.startswith("EXC:")):
            viol.append({"class": "routing_raised_foreign_exception", "sig": f"cold|{(g if isinstance(g, str) and g.startswith('EXC') else s).split(':')[1]}",
                         "detail": f"fresh process, MIME database '{case['db']}' set before the first routing call: .{ext} -> is_supported_file={s!r}, get_extractor -> {g!r}"})
        elif bool(s) != (g is not None):
            viol.append({"class": "is_supported_disagrees_with_get_extractor", "sig": f"cold|supported={s}|{g}", "detail": f"fresh process db={case['db']}: .{ext}"})
        elif g != DOCUMENTED[ext]:
            viol.append({"class": "documented_extension_misrouted", "sig": f"cold|{ext}->{g}", "detail": f"fresh process db={case['db']}: .{ext} routed to {g}, documented {DOCUMENTED[ext]}"})
    seen, out = set(), []
    for v in viol:
        if (v["class"], v["sig"]) not in seen:
            seen.add((v["class"], v["sig"]))
            out.append(v)
    return {"violations": out, "digest": log.digest(), "steps": log.n, "evals": len(case["exts"]), "faults": {"mime_db_perturbation": 1}, "probes": {"cold_process_routing": 1},
            "nontrivial": [f"cold|{case['db']}|{e}" for e in case["exts"]], "states": [log.digest()[:8]], "summary": {"cold": True}}


def run_case(case: dict) -> dict:
    if case.get("cold"):
        return _run_cold(case)
    import sharepoint2text
    log = K.EventLog()
    log.ev("case", K.h64(K.jdump(case)))
    viol, probes, nontriv = [], {}, set()
    sbx = os.path.join(K.sandbox_root(), f"c07-{os.getpid()}")
    os.makedirs(os.path.join(sbx, "cwd", "sub"), exist_ok=True)
    os.chdir(os.path.join(sbx, "cwd"))
    dbstate = "default"
    _set_db("default", None, sbx)
    seen_decisions: dict[str, dict] = {}  # path -> {dbstate: decision}
    evals = 0

    def probe(n):
        probes[n] = probes.get(n, 0) + 1

    def check_path(path, ext, src, shape, where):
        nonlocal evals
        s, g = _decide(path)
        evals += 1
        log.ev("route", where, dbstate, path, str(s), g[0], g[1])
        if isinstance(s, str) or g[0] == "EXC":
            viol.append({"class": "routing_raised_foreign_exception", "sig": f"{s if isinstance(s, str) else g[1]}",
                         "detail": f"path={path!r} db={dbstate}: is_supported_file -> {s!r}; get_extractor -> {g[:2]}"})
            return s, g
        if bool(s) != (g[0] == "ok"):
            viol.append({"class": "is_supported_disagrees_with_get_extractor", "sig": f"supported={s}|get_extractor={g[0]}|{_shape_sig(path)}",
                         "detail": f"path={path!r} db={dbstate}: is_supported_file={s} but get_extractor -> {g[:2]}"})
        seen_decisions.setdefault(path, {})[dbstate] = (bool(s), g[1])
        return s, g

    def invariants(path, ext, src, shape):
        """database independence, case insensitivity, alias equality, README table"""
        nonlocal dbstate
        saved = (mimetypes._db, dbstate)
        s, g = check_path(path, ext, src, shape, "q")
        # D0 under the empty database
        _set_db("empty", None, sbx)
        dbstate = "empty"
        probe("empty_mime_db")
        s0, g0 = check_path(path, ext, src, shape, "d0")
        mimetypes._db, dbstate = saved
        _sync_module_tables(mimetypes._db)
        if not isinstance(s0, str) and g0[0] == "ok":
            if (bool(s), g[1]) != (bool(s0), g0[1]):
                viol.append({"class": "extension_decision_depends_on_mime_db", "sig": f"{g0[1]}->{g[1] or g[0]}|{saved[1].split(':')[0]}",
                             "detail": f"path={path!r}: under the empty MIME database -> {g0[1]}, under '{saved[1]}' -> supported={s} {g[:2]}"})
        elif g[0] == "ok" and g0[0] != "ok":
            probe("decision_only_via_mime_fallback")
        # case variants
        for variant in (path.upper(), path.lower()):
            if variant != path:
                sv, gv = check_path(variant, ext, src, shape, "case")
                probe("case_variant_checked")
                if not isinstance(sv, str) and (bool(sv), gv[1]) != (bool(s), g[1]):
                    viol.append({"class": "routing_case_sensitive", "sig": f"{(ext or '-').lower()}|{_shape_sig(path)}",
                                 "detail": f"{path!r} -> supported={s} {g[1]}; {variant!r} -> supported={sv} {gv[1]} (db={dbstate})"})
        # README table
        e = ext.lower()
        if src == "doc" and shape.split("|")[1] == "plain" and shape.endswith("|stem") and e in DOCUMENTED and not path.endswith(("/", "\\")):
            if g[1] != DOCUMENTED[e]:
                viol.append({"class": "documented_extension_misrouted", "sig": f"{e}->{g[1] or g[0]}",
                             "detail": f"path={path!r} (documented .{e} -> {DOCUMENTED[e]}) routed to {g[:2]} (db={dbstate})"})
            for a, b in ALIAS_PAIRS:
                if e == a:
                    base_path = path[: len(path) - len(ext)] + b
                    sb, gb = check_path(base_path, b, src, shape, "alias")
                    if (bool(sb), gb[1]) != (bool(s), g[1]):
                        viol.append({"class": "alias_differs_from_base", "sig": f"{a}!={b}",
                                     "detail": f"{path!r} -> {g[1]}, {base_path!r} -> {gb[1]} (db={dbstate})"})
        if "." in ext:
            probe("compound_extension")
        if src == "encoded":
            probe("encoding_suffix_path")
        if "://" in path or path.startswith("data:"):
            probe("url_like_path")
        if path.endswith(("/", "\\", "/.")):
            probe("trailing_separator_path")
        known = e in DOCUMENTED or e in _router_exts or e in _platform_exts
        if known:
            nontriv.add(f"{e if e in DOCUMENTED else 'other:' + src}|{shape}|{dbstate.split(':')[0]}|route")
        return s, g

    try:
        for op in case["ops"]:
            if op[0] == "db":
                _set_db(op[1], op[2] if len(op) > 2 else None, sbx)
                dbstate = op[1] + (":" + ",".join(map(str, op[2])) if op[1] == "hostile" else "")
                probe({"empty": "empty_mime_db", "hostile": "hostile_mime_db", "reinit": "reinit_from_sandbox_file", "default": "default_db", "all_mapped": "every_mapped_mime_on_unknown_ext"}[op[1]])
                log.ev("db", dbstate)
            elif op[0] == "chdir":
                os.chdir(os.path.join(sbx, op[1]) if op[1] != "." else os.path.join(sbx, "cwd"))
                log.ev("chdir", op[1])
            elif op[0] == "route":
                _, path, ext, src, shape = op
                if path in seen_decisions and dbstate not in seen_decisions[path]:
                    probe("history_revisits_path_after_db_change")
                invariants(path, ext, src, shape)
            elif op[0] == "dispatch":
                _dispatch(op[1], op[2], sbx, viol, probe, log, dbstate, op[3] if len(op) > 3 else 0)
                evals += 1
    finally:
        _set_db("default", None, sbx)
        os.chdir("/")
    seen, out = set(), []
    for v in viol:
        if (v["class"], v["sig"]) not in seen:
            seen.add((v["class"], v["sig"]))
            out.append(v)
    return {"violations": out, "digest": log.digest(), "steps": log.n, "evals": evals, "faults": {"mime_db_perturbation": sum(1 for o in case["ops"] if o[0] == "db")},
            "probes": probes, "nontrivial": sorted(nontriv), "states": [log.digest()[:8]], "summary": {"ops": len(case["ops"])}}


def _shape_sig(path: str) -> str:
    t = "trailing_sep" if path.endswith(("/", "\\")) else "trailing_dot" if path.endswith("/.") or path.endswith(".") else \
        "query" if "?" in path or "#" in path else "ws" if path != path.strip() else "plain"
    return t


class _Spy:
    def __init__(self):
        self.calls = []

    def make(self, label):
        def spy(file_like, path=None):
            self.calls.append(label)
            return
            yield  # pragma: no cover
        spy.__name__ = "spy_" + label
        return spy


def _dispatch(path, kind, sbx, viol, probe, log, dbstate, content_i=0):
    """read_file / archive member / attachment routing reach the extractor get_extractor names"""
    import importlib
    import sharepoint2text
    from sharepoint2text.parsing import router
    from sharepoint2text.parsing.exceptions import ExtractionError
    content = CONTENTS[content_i % len(CONTENTS)]
    if content_i:
        probe("dispatch_with_foreign_content")
    base = os.path.basename(path.replace("\\", "/")) or "noname"
    base = base.replace("\n", "_").replace("\t", "_").replace("\x00", "_")[:100]
    if base in (".", "..") or "/" in base:
        return
    s0, g0 = _decide(base)
    if isinstance(s0, str) or g0[0] == "EXC":
        return
    # install spies into every extractor module (restored afterwards)
    spy = _Spy()
    saved = []
    for ft, (modname, fn) in router._EXTRACTOR_REGISTRY.items():
        mod = importlib.import_module(modname)
        if not any(m is mod and f == fn for m, f, _o in saved):
            saved.append((mod, fn, getattr(mod, fn)))
            setattr(mod, fn, spy.make(f"{modname.rsplit('.', 1)[-1]}.{fn}"))
    try:
        from sharepoint2text.parsing.extractors import archive_extractor as ae
        ae._get_file_extractor_cached.cache_clear()
        ae._is_supported_file_cached.cache_clear()
        want = g0[1]
        if kind in ("read_file", "symlink"):
            d = os.path.join(sbx, "files")
            os.makedirs(d, exist_ok=True)
            fp = os.path.join(d, base)
            try:
                if kind == "symlink":
                    tgt = os.path.join(d, "target-object-3f9a")
                    with open(tgt, "wb") as f:
                        f.write(content)
                    if os.path.lexists(fp):
                        os.remove(fp)
                    os.symlink(tgt, fp)
                    probe("symlink_path")
                else:
                    with open(fp, "wb") as f:
                        f.write(content)
            except OSError:
                return
            sfp, gfp = _decide(fp)  # read_file routes on the path it was given (spies are installed: compare by label)
            want = gfp[2].__name__[4:] if gfp[0] == "ok" and gfp[2].__name__.startswith("spy_") else gfp[1]
            try:
                list(sharepoint2text.read_file(fp))
                outcome = "ok"
            except ExtractionError as e:
                outcome = type(e).__name__
            except Exception as e:
                outcome = "EXC:" + type(e).__name__
            finally:
                try:
                    os.remove(fp)
                except OSError:
                    pass
            probe("read_file_dispatch_checked")
            got = spy.calls[-1] if spy.calls else None
            log.ev("dispatch", kind, base, dbstate, want, got, outcome)
            if (want or None) != (got or None) and not (want is None and outcome == "ExtractionFileFormatNotSupportedError"):
                viol.append({"class": "read_file_dispatch_differs", "sig": f"{kind}|{want}->{got or outcome}",
                             "detail": f"read_file({fp!r}) reached {got} ({outcome}) but get_extractor({base!r}) names {want} (db={dbstate})"})
        elif kind == "archive":
            import zipfile
            bio = io.BytesIO()
            with zipfile.ZipFile(bio, "w") as z:
                z.writestr("d/" + base, content)
            # real read_archive (its spy was installed too: call the saved original)
            orig = [o for m, f, o in saved if f == "read_archive"][0]
            try:
                list(orig(io.BytesIO(bio.getvalue()), "A.zip"))
            except Exception:
                pass
            probe("archive_member_dispatch_checked")
            got = spy.calls[-1] if spy.calls else None
            # hidden members and members that are themselves archives (whatever extension routes to the archive reader) are skipped
            nested_by_ext = base.lower().endswith((".zip", ".tar", ".tar.gz", ".tgz", ".tar.bz2", ".tbz2", ".tar.xz", ".txz", ".7z", ".gz", ".bz2", ".xz"))
            hidden = base.startswith(".") or nested_by_ext
            log.ev("dispatch", kind, base, dbstate, want, got)
            exp = None if hidden else want
            if want == "archive_extractor.read_archive" and not nested_by_ext and got in (None, want):
                pass  # routed to the archive reader through the MIME fallback only: skipping it or unpacking it are both consistent with get_extractor
            elif (exp or None) != (got or None):
                viol.append({"class": "archive_member_dispatch_differs", "sig": f"{exp}->{got}",
                             "detail": f"member {base!r} of a ZIP reached {got}; get_extractor names {want} (hidden/nested={hidden}, db={dbstate})"})
        else:
            from sharepoint2text.parsing.extractors.data_types import EmailAttachment, EmailContent
            mt = mimetypes.guess_type(base)[0] or "application/octet-stream"
            try:
                att = EmailAttachment(filename=base, mime_type=mt, data=io.BytesIO(content))
                mail = EmailContent.__new__(EmailContent)
                mail.attachments = [att]
                supported_mime = att.is_supported_mime_type
                list(mail.iterate_supported_attachments())
            except Exception as e:
                log.ev("dispatch-skip", kind, type(e).__name__)
                return
            probe("attachment_dispatch_checked")
            got = spy.calls[-1] if spy.calls else None
            log.ev("dispatch", kind, base, dbstate, want, got, supported_mime)
            if supported_mime and want is not None and got != want:
                viol.append({"class": "attachment_dispatch_differs", "sig": f"{want}->{got}",
                             "detail": f"attachment {base!r} (mime {mt}) reached {got}; get_extractor names {want} (db={dbstate})"})
    finally:
        for mod, fn, orig in saved:
            setattr(mod, fn, orig)
        ae._get_file_extractor_cached.cache_clear()
        ae._is_supported_file_cached.cache_clear()


def shrink(case):
    if case.get("cold"):
        for e in case["exts"]:
            if len(case["exts"]) > 1:
                yield dict(case, exts=[e])
        return
    ops = case["ops"]
    n = len(ops)
    chunk = max(1, n // 2)
    while chunk >= 1:
        for s in range(0, n, chunk):
            c = ops[:s] + ops[s + chunk:]
            if c:
                yield {"ops": c}
        if chunk == 1:
            break
        chunk //= 2
