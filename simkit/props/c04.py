"""C04 -- every result honours the common interface, for any input (engine iosim, DESIGN.md 3.C04)."""
from __future__ import annotations

import io
import os
import random
import re
import shutil
import zipfile
from pathlib import Path, PurePath
from xml.etree import ElementTree as ET

from .. import corpus, iosim
from .. import kernel as K

ID = "C04"
ENGINE = "iosim"
LEVEL = "exploration"
BUDGET = {"quick": 60, "thorough": 1200}
RUN_TIMEOUT = 120
REPLAY_TRIES = 24
SELFTEST_PAIRS = {"quick": 16, "thorough": 40}
PROBES = ["accepted_after_fault", "fault_free_result", "result_with_images", "result_with_tables", "result_with_units", "placeholder_image_with_error",
          "doc_properties_compared", "path_none", "path_existing_file", "path_member_form", "non_bmp_text", "entry_attachment", "entry_archive", "earlier_documents_in_process", "same_bytes_under_another_path", "path_context_changed"]
RULE = ("the fault space of C01 restricted to runs that yield >= 1 result (damaged-but-accepted documents) plus a fault-free population; for every "
        "result the full accessor sweep over result / units / images / tables / metadata is applied; distinct non-trivial = (result type, entry, "
        "first fault kind, shape class (units/images/tables present), function-set signature)")
ASSUMPTIONS = [
    "nothing is demanded about what text a damaged file yields; empty results are fine",
    "document-property comparison uses an independent stdlib reader (zipfile + ElementTree / regex) and only compares fields it could read itself",
    "reported size of an image = its size_bytes / size field when the type has one",
]
COMPONENTS = {"real": ["all extractors and result data types", "FileMetadataInterface.populate_from_path", "serialization.to_json"],
              "stub": ["the block device / member reads (fault operators)", "independent property reader (oracle side)"]}


ARCHIVE_ROUTES = {"zip", "tar", "tgz", "tbz2", "txz", "7z", "gz", "bz2", "xz", "tar.gz", "tar.bz2", "tar.xz"}
SKIP_PATH = object()


def warm():
    iosim.warm(measure_cpu=False)


def classify_harness(rec, payload):
    """a run that had to be killed (CPU budget / wall cap) says nothing about the interface contract: termination is C01's property"""
    if rec.get("_harness") == "timeout" or (rec.get("_harness") == "crash" and rec.get("signal") in (9, 24)):
        return {"ignore": True, "reason": "killed_by_budget_termination_is_C01"}
    return None


def gen_case(rng: random.Random, tier: str) -> dict:
    c = iosim.gen_case(rng, tier, fault_free_p=0.3, s2_bias=0.65, entries=["direct", "direct", "read_file", "archive_zip", "attachment"])
    if rng.random() < 0.75:
        c["route"] = iosim.ext_of(c["doc"])  # accepted results need the right parser most of the time
    if rng.random() < 0.35:
        # history: other documents of the same family are extracted (and dropped) earlier in the same process
        fam = [n for n in iosim.names() if iosim.ext_of(n) == iosim.ext_of(c["doc"]) and n != c["doc"] and "password" not in n]
        if fam:
            c["prelude"] = [rng.choice(fam) for _ in range(rng.choice([1, 2, 4, 9, 9, 14]))]
            if rng.random() < 0.6:
                c["ops"], c["ole"] = [], None  # the stored-properties differential needs the fault-free document: what the history may change is its report
    if rng.random() < 0.3:
        c["recheck"] = rng.choice(["chdir", "create_file", "both", "exists_in_both_cwds", "exists_in_both_cwds"])  # same path string, changed file-system context
        c["entry"] = "direct"
        c["path_kind"] = rng.choice(["relative", "relative", "unicode"])
    elif rng.random() < 0.25:
        # the same bytes extracted a second time under another path argument (or none): the second report follows its own
        # argument and the first result, still held by the caller, keeps saying what it said
        c["recheck"] = "other_path"
        c["entry"] = "direct"
        c["path_kind"] = rng.choice(["relative", "absolute_missing", "unicode"])
        c["path_kind2"] = rng.choice(["none", "none", "absolute_missing", "member_form"])
    return c


# ------------------------------------------------------------------------------------------------ accessor sweep
def _is_posint(x) -> bool:
    return isinstance(x, int) and not isinstance(x, bool) and x >= 1


def _check_str(v, what, tname, viol, where):
    if not isinstance(v, str):
        viol.append({"class": "accessor_wrong_type", "sig": f"{tname}|{what}|{type(v).__name__}", "detail": f"{where}: {what} returned {type(v).__name__}"})
        return
    try:
        v.encode("utf-8")
    except UnicodeEncodeError as e:
        viol.append({"class": "text_not_wellformed_unicode", "sig": f"{tname}|{what}", "detail": f"{where}: {what} is not encodable as UTF-8: {e}"[:300]})


def _sweep_image(im, tname, viol, where, probes):
    it = type(im).__name__
    try:
        s = im.get_bytes()
        pos = s.tell()
        data = s.read()
        if pos != 0:
            viol.append({"class": "image_stream_not_at_zero", "sig": f"{it}", "detail": f"{where}: get_bytes() positioned at {pos}"})
        size = None
        for fld in ("size_bytes", "size"):
            if isinstance(getattr(im, fld, None), int) and not isinstance(getattr(im, fld), bool):
                size = getattr(im, fld)
                break
        if size is not None and size != len(data):
            viol.append({"class": "image_size_mismatch", "sig": f"{it}", "detail": f"{where}: reported size {size}, stream holds {len(data)} bytes (error={getattr(im, 'error', None)!r})"})
        data2 = im.get_bytes().read()
        if len(data2) != len(data):
            viol.append({"class": "image_size_mismatch", "sig": f"{it}|second_read", "detail": f"{where}: second get_bytes().read() returned {len(data2)} bytes, first {len(data)}"})
        _check_str(im.get_content_type(), "image.get_content_type", it, viol, where)
        _check_str(im.get_caption(), "image.get_caption", it, viol, where)
        _check_str(im.get_description(), "image.get_description", it, viol, where)
        md = im.get_metadata()
        num = md.image_number if hasattr(md, "image_number") else md.get("image_number")
        un = md.unit_number if hasattr(md, "unit_number") else md.get("unit_number")
        if getattr(im, "error", None):
            probes["placeholder_image_with_error"] = 1
        if not _is_posint(num):
            viol.append({"class": "image_number_not_positive", "sig": f"{it}|{'error_placeholder' if getattr(im, 'error', None) else 'regular'}",
                         "detail": f"{where}: image_number={num!r} (error={getattr(im, 'error', None)!r})"})
        if un is not None and not _is_posint(un):
            viol.append({"class": "image_unit_number_invalid", "sig": f"{it}", "detail": f"{where}: image unit_number={un!r}"})
    except Exception as e:
        viol.append({"class": "accessor_raised", "sig": f"{it}|image|{type(e).__name__}|{iosim.innermost_frame(e)}", "detail": f"{where}: image accessor raised {e!r}"})


def _sweep_table(t, tname, viol, where):
    tt = type(t).__name__
    try:
        tb = t.get_table()
        if not isinstance(tb, list) or not all(isinstance(r, list) for r in tb):
            viol.append({"class": "table_not_list_of_lists", "sig": tt, "detail": f"{where}: get_table() -> {type(tb).__name__} of {sorted({type(r).__name__ for r in tb})[:3] if isinstance(tb, list) else ''}"})
            return
        dm = t.get_dim()
        exp = (len(tb), max((len(r) for r in tb), default=0))
        got = (getattr(dm, "rows", None), getattr(dm, "columns", None))
        if got != exp:
            viol.append({"class": "table_dim_mismatch", "sig": tt, "detail": f"{where}: get_dim()={got}, shape of get_table()={exp}"})
    except Exception as e:
        viol.append({"class": "accessor_raised", "sig": f"{tt}|table|{type(e).__name__}|{iosim.innermost_frame(e)}", "detail": f"{where}: table accessor raised {e!r}"})


def sweep(res, path, viol, probes, where):
    tname = type(res).__name__
    try:
        _check_str(res.get_full_text(), "get_full_text", tname, viol, where)
    except Exception as e:
        viol.append({"class": "accessor_raised", "sig": f"{tname}|get_full_text|{type(e).__name__}|{iosim.innermost_frame(e)}", "detail": f"{where}: {e!r}"})
    shape = []
    try:
        units = list(res.iterate_units())
        if units:
            probes["result_with_units"] = 1
            shape.append("U")
        seen_numbers = []
        for ui, u in enumerate(units):
            w = f"{where} unit[{ui}]"
            _check_str(u.get_text(), "unit.get_text", tname, viol, w)
            md = u.get_metadata()
            un = getattr(md, "unit_number", None)
            if not _is_posint(un):
                viol.append({"class": "unit_number_not_positive", "sig": f"{tname}", "detail": f"{w}: unit_number={un!r}"})
            seen_numbers.append(un)
            ims = u.get_images()
            tbs = u.get_tables()
            if not isinstance(ims, list) or not isinstance(tbs, list):
                viol.append({"class": "accessor_wrong_type", "sig": f"{tname}|unit.get_images/get_tables", "detail": f"{w}: {type(ims).__name__}/{type(tbs).__name__}"})
            else:
                for ii, im in enumerate(ims[:20]):
                    _sweep_image(im, tname, viol, f"{w} image[{ii}]", probes)
                for ti, t in enumerate(tbs[:20]):
                    _sweep_table(t, tname, viol, f"{w} table[{ti}]")
            uj = u.to_json()
            if not isinstance(uj, dict):
                viol.append({"class": "accessor_wrong_type", "sig": f"{tname}|unit.to_json", "detail": f"{w}: {type(uj).__name__}"})
    except Exception as e:
        viol.append({"class": "accessor_raised", "sig": f"{tname}|units|{type(e).__name__}|{iosim.innermost_frame(e)}", "detail": f"{where}: unit accessors raised {e!r}"})
    try:
        ims = list(res.iterate_images())
        if ims:
            probes["result_with_images"] = 1
            shape.append("I")
        for ii, im in enumerate(ims[:40]):
            _sweep_image(im, tname, viol, f"{where} image[{ii}]", probes)
    except Exception as e:
        viol.append({"class": "accessor_raised", "sig": f"{tname}|iterate_images|{type(e).__name__}|{iosim.innermost_frame(e)}", "detail": f"{where}: {e!r}"})
    try:
        tbs = list(res.iterate_tables())
        if tbs:
            probes["result_with_tables"] = 1
            shape.append("T")
        for ti, t in enumerate(tbs[:40]):
            _sweep_table(t, tname, viol, f"{where} table[{ti}]")
    except Exception as e:
        viol.append({"class": "accessor_raised", "sig": f"{tname}|iterate_tables|{type(e).__name__}|{iosim.innermost_frame(e)}", "detail": f"{where}: {e!r}"})
    try:
        md = res.get_metadata()
        got = (md.filename, md.file_extension, md.file_path, md.folder_path)
        if path is SKIP_PATH:
            pass
        elif path is None:
            if any(x is not None for x in got):
                viol.append({"class": "file_metadata_wrong", "sig": f"{tname}|not_none_without_path", "detail": f"{where}: path=None but metadata {got}"})
        else:
            p = PurePath(path)
            pp = Path(path)
            ok = (got[0] == p.name and got[1] == p.suffix and got[2] in (str(p), str(pp.resolve())) and got[3] in (str(p.parent), str(pp.parent.resolve())))
            if not ok:
                viol.append({"class": "file_metadata_wrong", "sig": f"{tname}|{_which(got, p, pp)}",
                             "detail": f"{where}: path={path!r} -> filename={got[0]!r} ext={got[1]!r} file_path={got[2]!r} folder={got[3]!r}"})
    except Exception as e:
        viol.append({"class": "accessor_raised", "sig": f"{tname}|get_metadata|{type(e).__name__}|{iosim.innermost_frame(e)}", "detail": f"{where}: {e!r}"})
    try:
        j = res.to_json()
        if not isinstance(j, dict):
            viol.append({"class": "accessor_wrong_type", "sig": f"{tname}|to_json", "detail": f"{where}: {type(j).__name__}"})
    except Exception as e:
        viol.append({"class": "accessor_raised", "sig": f"{tname}|to_json|{type(e).__name__}|{iosim.innermost_frame(e)}", "detail": f"{where}: {e!r}"})
    return "".join(shape) or "-"


def _which(got, p, pp):
    if got[0] != p.name:
        return "filename"
    if got[1] != p.suffix:
        return "file_extension"
    if got[2] not in (str(p), str(pp.resolve())):
        return "file_path"
    return "folder_path"


# ------------------------------------------------------------------------------------------------ independent document properties
NS = {"dc": "http://purl.org/dc/elements/1.1/", "cp": "http://schemas.openxmlformats.org/package/2006/metadata/core-properties",
      "meta": "urn:oasis:names:tc:opendocument:xmlns:meta:1.0", "office": "urn:oasis:names:tc:opendocument:xmlns:office:1.0",
      "opf": "http://www.idpf.org/2007/opf"}


def _txt(root, path):
    e = root.find(path, NS)
    return (e.text or "") if e is not None else None


def independent_props(data: bytes, ext: str) -> dict:
    """title / author / subject / keywords / description read with stdlib only; absent when not readable"""
    out = {}
    try:
        if ext in ("docx", "docm", "dotx", "dotm", "pptx", "pptm", "potx", "ppsx", "xlsx", "xlsm", "xltx"):
            with zipfile.ZipFile(io.BytesIO(data)) as z:
                root = ET.fromstring(z.read("docProps/core.xml"))
            out = {"title": _txt(root, "dc:title"), "author": _txt(root, "dc:creator"), "subject": _txt(root, "dc:subject"),
                   "keywords": _txt(root, "cp:keywords"), "description": _txt(root, "dc:description")}
        elif ext in ("odt", "ott", "ods", "ots", "odp", "otp", "odg", "odf"):
            with zipfile.ZipFile(io.BytesIO(data)) as z:
                root = ET.fromstring(z.read("meta.xml"))
            m = root.find("office:meta", NS)
            if m is not None:
                out = {"title": _txt(m, "dc:title"), "subject": _txt(m, "dc:subject"), "description": _txt(m, "dc:description"),
                       "creator": _txt(m, "dc:creator"), "initial_creator": _txt(m, "meta:initial-creator")}
        elif ext == "epub":
            with zipfile.ZipFile(io.BytesIO(data)) as z:
                c = ET.fromstring(z.read("META-INF/container.xml"))
                rf = c.find(".//{urn:oasis:names:tc:opendocument:xmlns:container}rootfile")
                root = ET.fromstring(z.read(rf.get("full-path")))
            md = root.find("opf:metadata", NS)
            if md is not None:
                out = {"title": _txt(md, "dc:title"), "creator": _txt(md, "dc:creator")}
        elif ext in ("html", "htm"):
            t = data.decode("utf-8", "strict")
            m = re.search(r"<title>([^<&]*)</title>", t)
            if m:
                out["title"] = m.group(1)
            for k in ("author", "description", "keywords"):
                m = re.search(r'<meta name="%s" content="([^"&]*)">' % k, t)
                if m:
                    out[k] = m.group(1)
        elif ext == "rtf":
            t = data.decode("ascii", "strict")
            for k, fld in (("title", "title"), ("author", "author"), ("subject", "subject"), ("keywords", "keywords")):
                m = re.search(r"\{\\%s ([A-Za-z0-9 ,]+)\}" % fld, t)
                if m:
                    out[k] = m.group(1)
    except Exception:
        return {}
    return {k: v for k, v in out.items() if v is not None and v.strip() and v == v.strip() and "\n" not in v}


FIELD_ALIASES = {"author": ["author", "creator"], "description": ["description", "comments"], "creator": ["creator"], "initial_creator": ["initial_creator"],
                 "title": ["title"], "subject": ["subject"], "keywords": ["keywords"]}


def compare_props(res, data, ext, viol, probes, where):
    props = independent_props(data, ext)
    if not props:
        return
    md = res.get_metadata()
    probes["doc_properties_compared"] = 1
    for k, v in props.items():
        for fld in FIELD_ALIASES.get(k, [k]):
            if hasattr(md, fld):
                got = getattr(md, fld)
                if isinstance(got, str) and got != v:
                    viol.append({"class": "document_property_changed", "sig": f"{type(res).__name__}|{k}",
                                 "detail": f"{where}: file states {k}={v!r}, metadata.{fld}={got!r}"})
                break


# ------------------------------------------------------------------------------------------------ execution
def run_case(case: dict) -> dict:
    log = K.EventLog()
    log.ev("case", K.h64(K.jdump(case)))
    viol, probes = [], {}
    sbx = os.path.join(K.sandbox_root(), f"c04-{os.getpid()}")
    os.makedirs(sbx, exist_ok=True)
    iosim.arm_budgets(40, 4 << 30)
    fs = K.FuncSet((K.PKG + os.sep,))
    fs.start()
    try:
        import gc
        for pn in case.get("prelude") or []:
            try:
                rs = list(corpus.extractor_for(pn)(io.BytesIO(iosim.docs()[pn]), None))
                for r in rs:
                    r.get_full_text()
                    r.get_metadata()
            except Exception:
                pass
            rs = None
            gc.collect()
            probes["earlier_documents_in_process"] = 1
        os.makedirs(os.path.join(sbx, "cwd1"), exist_ok=True)
        os.makedirs(os.path.join(sbx, "cwd2"), exist_ok=True)
        os.chdir(os.path.join(sbx, "cwd1"))
        if case.get("recheck") == "exists_in_both_cwds":
            rel = iosim.path_arg(case, f"{case['stem']}.{case['route']}")
            for cw in ("cwd1", "cwd2"):
                fp = os.path.join(sbx, cw, rel)
                os.makedirs(os.path.dirname(fp), exist_ok=True)
                with open(fp, "wb") as f:
                    f.write(b"x")
        out = iosim.execute(case, sbx)
        fname = f"{case['stem']}.{case['route']}"
        entry = case["entry"]
        if entry == "direct":
            path = iosim.path_arg(case, fname)
        elif entry == "read_file":
            path = os.path.join(sbx, fname)
            probes["path_existing_file"] = 1
        elif entry == "archive_zip":
            path = None  # members carry 'A.zip!/dir/<name>' -- checked below per result
        else:
            path = None
        shapes = []
        data = iosim.materialise(case)
        for ri, res in enumerate(out.results[:6]):
            where = f"{case['doc']} via {entry} result[{ri}]"
            p = path
            if entry == "archive_zip":
                # three members: before.txt, dir/<fname>, after.txt -- derive the expected path from the result's own filename
                fn = res.get_metadata().filename
                p = "A.zip!/" + ("dir/" + fname if fn == fname else fn) if fn in (fname, "before.txt", "after.txt") else None
                probes["entry_archive"] = 1
                if p is None and case["route"].lower() in ARCHIVE_ROUTES:
                    p = SKIP_PATH  # a member that is itself an archive: its own members are labelled by the archive layer
                if p is None:
                    viol.append({"class": "file_metadata_wrong", "sig": f"{type(res).__name__}|archive_member_filename", "detail": f"{where}: filename {fn!r} is none of the members"})
                    continue
            elif entry == "attachment":
                p = fname
                probes["entry_attachment"] = 1
            if case["route"].lower() in ARCHIVE_ROUTES:
                p = SKIP_PATH  # results of an archive are its members: their labels are C10's business
            if p is None:
                probes["path_none"] = 1
            elif p is not SKIP_PATH and "!/" in p:
                probes["path_member_form"] = 1
            shapes.append(sweep(res, p, viol, probes, where))
            try:
                if any(ord(ch) > 0xFFFF for ch in res.get_full_text()[:20000]):
                    probes["non_bmp_text"] = 1
            except Exception:
                pass
            own = iosim.ext_of(case["doc"])
            if entry in ("direct", "read_file") and case["route"].lower() == own and ri == 0 and not case["ops"]:
                compare_props(res, data, own, viol, probes, where)
        if case.get("recheck") == "other_path" and entry == "direct" and path and out.exc is None:
            case2 = dict(case, path_kind=case["path_kind2"], stem=case["stem"] + "-second")
            path2 = iosim.path_arg(case2, f"{case2['stem']}.{case['route']}")
            out2 = iosim.execute(case2, sbx)
            probes["same_bytes_under_another_path"] = 1
            arch = case["route"].lower() in ARCHIVE_ROUTES
            for ri, res in enumerate(out2.results[:3]):
                sweep(res, SKIP_PATH if arch else path2, viol, probes, f"{case['doc']} extracted again with path {path2!r} result[{ri}]")
            n0 = len(viol)
            for ri, res in enumerate(out.results[:3]):
                sweep(res, SKIP_PATH if arch else path, viol, probes, f"{case['doc']} FIRST result[{ri}] (path {path!r}) looked at again after a second extraction with path {path2!r}")
            for v in viol[n0:]:
                v["sig"] += "|earlier_result_after_later_extraction"
        elif case.get("recheck") and entry == "direct" and path and out.exc is None:
            # the same path string under a changed context: other cwd and/or the path now names an existing file
            if case["recheck"] in ("chdir", "both", "exists_in_both_cwds"):
                os.chdir(os.path.join(sbx, "cwd2"))
            if case["recheck"] in ("create_file", "both"):
                os.makedirs(os.path.dirname(os.path.abspath(path)), exist_ok=True)
                with open(path, "wb") as f:
                    f.write(b"x")
            probes["path_context_changed"] = 1
            out2 = iosim.execute(case, sbx)
            for ri, res in enumerate(out2.results[:3]):
                sweep(res, path if case["route"].lower() not in ARCHIVE_ROUTES else SKIP_PATH, viol, probes, f"{case['doc']} re-extracted after {case['recheck']} result[{ri}]")
        for mail in out.outer[:2]:
            sweep(mail, "carrier.eml", viol, probes, f"{case['doc']} carrier e-mail")
    finally:
        fsig = fs.stop()
        os.chdir("/")
        shutil.rmtree(sbx, ignore_errors=True)
    if out.results:
        probes["accepted_after_fault" if case["ops"] else "fault_free_result"] = 1
    kind0 = (case["ops"][0][0] + (":" + case["ops"][0][2][0] if case["ops"][0][0] == "zip" else "")) if case["ops"] else "none"
    nontriv = [f"{type(out.results[0]).__name__}|{case['entry']}|{kind0}|{shapes[0] if shapes else '-'}|{fsig}"] if out.results else []
    seen, v2 = set(), []
    for v in viol:
        if (v["class"], v["sig"]) not in seen:
            seen.add((v["class"], v["sig"]))
            v2.append(v)
    log.ev("outcome", len(out.results), type(out.exc).__name__ if out.exc else None, len(v2))
    faults = {}
    for op in case["ops"]:
        faults[op[0]] = faults.get(op[0], 0) + 1
    return {"violations": v2, "digest": log.digest(), "steps": log.n, "evals": 1, "faults": faults, "probes": probes, "nontrivial": nontriv,
            "states": [f"{case['route']}|{len(out.results)}|{fsig}"], "summary": {"doc": case["doc"], "results": len(out.results)}}


def shrink(case):
    ops = case["ops"]
    for i in range(len(ops)):
        yield dict(case, ops=ops[:i] + ops[i + 1:])
    if case.get("prelude"):
        yield {k: v for k, v in case.items() if k != "prelude"}
        if len(case["prelude"]) > 1:
            yield dict(case, prelude=case["prelude"][:len(case["prelude"]) // 2])
            yield dict(case, prelude=case["prelude"][len(case["prelude"]) // 2:])
    if case.get("recheck"):
        yield {k: v for k, v in case.items() if k != "recheck"}
    if case["entry"] != "direct":
        yield dict(case, entry="direct")
    if case.get("path_kind") != "none" and not case.get("recheck"):
        yield dict(case, path_kind="none")
    if case.get("pos"):
        yield dict(case, pos=0)
    for i, op in enumerate(ops):
        if op[0] == "flip" and len(op[1]) > 1:
            for j in range(len(op[1])):
                yield dict(case, ops=ops[:i] + [["flip", op[1][:j] + op[1][j + 1:]]] + ops[i + 1:])
