"""C06 -- extraction is a deterministic, side-effect-free function of its input (engine detsim, DESIGN.md 2.5 / 3.C06)."""
from __future__ import annotations

import copy
import hashlib
import io
import json
import os
import random
import subprocess
import sys

from .. import blockdev, canon, corpus
from .. import kernel as K

ID = "C06"
ENGINE = "detsim"
LEVEL = "exploration"
BUDGET = {"quick": 50, "thorough": 900}
RUN_TIMEOUT = 300
SHRINK_MAX_S = 45
SELFTEST_PAIRS = {"quick": 6, "thorough": 16}
HARNESS_TOLERANCE = 0.0
PROBES = ["clock_read_during_extraction", "hashseed_differs", "heap_shifted", "nonzero_start_position", "observer_history",
          "partial_unit_iteration", "faulted_but_accepted_input", "result_with_images", "order_reversed", "interleaved_generators"]
RULE = ("config runs: a batch of corpus documents extracted in k fresh interpreters that differ in PYTHONHASHSEED, simulated clock "
        "(base years apart, advancing on every read), heap layout, initial stream position and batch order; twice per process; "
        "canonical to_json digests must agree. observer runs: a seeded sequence of 5-40 observer calls on one result against a "
        "first-seen-value model. distinct non-trivial = (mode, document, behaviour) where behaviour is the set of differing "
        "config dimensions (config mode) or the multiset of observer kinds (observer mode) and the document yields >= 1 result")
ASSUMPTIONS = [
    "same (bytes, path) and same cwd in every configuration; path names a non-existent file so documented path-dependent metadata is constant",
    "the clock seam replaces datetime/date/time bindings in loaded sharepoint2text/openpyxl/pypdf/xlrd/olefile/mailparser/msg_parser modules (re-applied before every extraction); a clock read through another module is not simulated",
    "canon() replaces only non-JSON values (datetime, bytes, BytesIO) by tagged strings; it hides no field",
    "the observer driver does not mutate returned objects",
]
COMPONENTS = {"real": ["all 21 extractors and their third-party parsers", "result data types, serialization", "CPython str/bytes hashing per PYTHONHASHSEED"],
              "stub": ["clock values (datetime.now/utcnow/today, time.time)", "heap layout perturbation (junk allocation)", "observer call sequence"]}

WORKER = os.path.join(K.VERIF, "simkit", "detworker.py")
_docs: dict[str, bytes] = {}
_names: list[str] = []
SIMPATH = "/nonexistent-s2tsim/dir"


def warm():
    global _docs, _names
    corpus.warm_all(extract=True)
    _docs = corpus.corpus()
    _names = [n for n in sorted(_docs) if "password" not in n]


# ------------------------------------------------------------------------------------------------ generation
OBS = ["full_text", "units_all", "units_partial", "unit_text", "unit_images", "unit_tables", "unit_meta", "unit_json", "images_all",
       "image_bytes", "image_meta", "tables_all", "table_get", "table_dim", "metadata", "to_json", "serialize_nobin", "json_dumps"]


META_PARTS = ("docProps/core.xml", "docProps/app.xml", "meta.xml", "content.opf")


def _mutate(rng, data: bytes) -> tuple[bytes, list]:
    if blockdev.is_zip(data) and rng.random() < 0.45:
        # damage inside the metadata part: absent / empty properties are where defaults (clock, host, locale) leak in
        names = blockdev.zip_members(data)
        idx = [i for i, n in enumerate(names) if n.endswith(META_PARTS)]
        if idx:
            k = rng.choice(idx)
            ed = rng.choice([["xml_empty", rng.randrange(1 << 20)], ["xml_empty", rng.randrange(1 << 20)], ["xml_del", rng.randrange(1 << 20)],
                             ["del_attr", rng.randrange(1 << 20)], ["attr_mangle", rng.randrange(1 << 20), rng.randrange(1 << 10), "letter"]])
            ops = [["zip", k, ["edit", ed]]]
            return blockdev.apply_ops(data, ops, corpus.splice_sources()), ops
    ops = blockdev.gen_ops(rng, data, corpus.splice_sources(), s2_bias=0.7)
    return blockdev.apply_ops(data, ops, corpus.splice_sources()), ops


def _apply(data: bytes, ops) -> bytes:
    return blockdev.apply_ops(data, ops, corpus.splice_sources()) if ops else data


SENSITIVE = ["gen/deep.html", "gen/deep.rtf", "gen/deep.json", "gen/hebrew.html", "gen/arabic.html", "gen/server.log", "gen/settings.ini"]  # outcome depends on interpreter-global settings (recursion limit)


def classify_harness(rec, payload):
    """a run that had to be killed (wall cap) says nothing about this property: termination is C01's"""
    if rec.get("_harness") == "timeout" or (rec.get("_harness") == "crash" and rec.get("signal") in (9, 24)):
        return {"ignore": True, "reason": "killed_by_budget_termination_is_C01"}
    return None


def gen_case(rng: random.Random, tier: str) -> dict:
    mode = rng.choices(["config", "observe", "interleave"], [1, 3, 1.0])[0]
    if mode == "interleave":
        multi = [n for n in _names if n.endswith((".7z", ".zip", ".tar", ".tar.gz", ".tgz", ".mbox", ".tar.bz2", ".tar.xz"))]
        a = rng.choice(multi)
        same = [n for n in multi if n.rsplit(".", 1)[-1] == a.rsplit(".", 1)[-1]]
        b = rng.choice(same) if rng.random() < 0.45 else rng.choice(multi if rng.random() < 0.7 else _names)
        if rng.random() < 0.4:
            # any two documents of one format (or the same document twice, under two paths): results that share an object show here
            a = rng.choice([n for n in _names if len(_docs[n]) < 400_000])
            fam = [n for n in _names if n.rsplit(".", 1)[-1].lower() == a.rsplit(".", 1)[-1].lower() and len(_docs[n]) < 400_000]
            b = a if rng.random() < 0.4 else rng.choice(fam)
        return {"mode": "interleave", "docs": [a, b], "pattern": [rng.randrange(2) for _ in range(rng.randrange(2, 12))]}
    if mode == "config":
        nd = rng.choice([6, 10, 14]) if tier == "quick" else rng.choice([8, 14, 20])
        small = [n for n in _names if len(_docs[n]) < 400_000]
        names = rng.sample(small, min(nd, len(small)))
        for sname in SENSITIVE:
            if sname in _docs and sname not in names and rng.random() < 0.4:
                names.insert(rng.randrange(len(names) + 1), sname)
        docs = []
        for n in names:
            d = {"name": n, "ops": []}
            if rng.random() < (0.15 if tier == "quick" else 0.4):
                _b, ops = _mutate(rng, _docs[n])
                d["ops"] = ops
            docs.append(d)
        k = rng.choice([2, 3]) if tier == "quick" else rng.choice([3, 4, 6])
        cfgs = []
        for j in range(k):
            cfgs.append({"hashseed": 0 if j == 0 else rng.choice([1, 2, 7, rng.randrange(1, 2 ** 31)]),
                         "clock_base": 946684800 + rng.randrange(0, 40) * 31_536_000 + rng.randrange(86400),
                         "clock_step": rng.choice([0.001, 1, 61, 86400 * 3]),
                         "junk": 0 if j == 0 else rng.choice([0, 1000, 77_777, 400_001]),
                         "pos": rng.random() < 0.5, "reverse": rng.random() < 0.4})
        return {"mode": "config", "docs": docs, "configs": cfgs, "pos_seed": rng.randrange(1 << 30)}
    n = rng.choice(_names)
    ops = []
    for _ in range(rng.randrange(5, 41)):
        o = rng.choice(OBS)
        ops.append([o, rng.randrange(0, 6), rng.choice([0, 1, 3, 10, 1000])])
    d = {"mode": "observe", "doc": n, "ops": [], "obs": ops}
    if rng.random() < (0.15 if tier == "quick" else 0.35):
        _b, mops = _mutate(rng, _docs[n])
        d["ops"] = mops
    return d


# ------------------------------------------------------------------------------------------------ config mode
def _spawn(cfg, docs, pos_seed, want_tree=()):
    specdocs = []
    r = random.Random(pos_seed)
    for d in docs:
        data = _apply(_docs[d["name"]], d["ops"])
        pos = r.randrange(0, len(data) + 1) if data else 0
        specdocs.append({"name": d["name"], "route": os.path.basename(d["name"]), "path": SIMPATH + "/" + os.path.basename(d["name"]),
                         "b64": K.b64e(data), "pos": pos if cfg.get("pos") else 0})
    order = list(range(len(specdocs)))
    if cfg.get("reverse"):
        order.reverse()
    spec = {"verif": K.VERIF, "repo": K.REPO, "docs": specdocs, "clock": {"base": cfg["clock_base"], "step": cfg["clock_step"]},
            "junk": cfg["junk"], "order": order, "want_tree": list(want_tree)}
    env = dict(os.environ)
    env["PYTHONHASHSEED"] = str(cfg["hashseed"])
    env["PYTHONPATH"] = K.REPO + os.pathsep + K.VERIF
    try:
        p = subprocess.run([sys.executable, WORKER], input=json.dumps(spec), capture_output=True, text=True, env=env, cwd="/", timeout=400)
    except subprocess.TimeoutExpired:
        raise _BatchSkipped("a configuration process exceeded its wall budget (a runaway document: termination is C01's property)")
    if p.returncode != 0:
        raise RuntimeError("detworker failed: " + p.stderr[-1500:])
    return json.loads(p.stdout)


class _BatchSkipped(Exception):
    pass


def _run_config(case):
    log = K.EventLog()
    log.ev("case", K.h64(K.jdump(case)))
    viol, probes, nontriv = [], {}, set()
    docs, cfgs = case["docs"], case["configs"]
    try:
        outs = [_spawn(c, docs, case["pos_seed"]) for c in cfgs]
    except _BatchSkipped as e:
        log.ev("skipped", str(e)[:40])
        return {"violations": [], "digest": log.digest(), "steps": log.n, "evals": 0, "faults": {}, "probes": {"batch_skipped_runaway_document": 1}, "nontrivial": [],
                "states": ["skipped"], "summary": {"skipped": str(e)}}
    if len({c["hashseed"] for c in cfgs}) > 1:
        probes["hashseed_differs"] = 1
    if any(c["junk"] for c in cfgs):
        probes["heap_shifted"] = 1
    if any(c.get("pos") for c in cfgs):
        probes["nonzero_start_position"] = 1
    if any(c.get("reverse") for c in cfgs) and not all(c.get("reverse") for c in cfgs):
        probes["order_reversed"] = 1
    if any(o["clock_reads"] for o in outs):
        probes["clock_read_during_extraction"] = sum(1 for o in outs if o["clock_reads"])
    evals = 0
    for d in docs:
        n = d["name"]
        recs = [o["results"][n] for o in outs]
        evals += 2 * len(recs)
        ds = [tuple(r["digests"]) for r in recs]
        log.ev("doc", n, d["ops"], ds[0][0])
        accepted = not ds[0][0].startswith("EXC")
        if d["ops"] and accepted:
            probes["faulted_but_accepted_input"] = probes.get("faulted_but_accepted_input", 0) + 1
        if accepted:
            dims = sorted({k for k in ("hashseed", "clock_base", "junk", "pos", "reverse") if len({json.dumps(c.get(k)) for c in cfgs}) > 1})
            nontriv.add(f"config|{n}|{'+'.join(dims)}|{'mut' if d['ops'] else 'orig'}")
        if any(r.get("buffer_changed") for r in recs):
            viol.append({"class": "input_buffer_modified", "sig": f"{n.rsplit('.', 1)[-1]}", "detail": f"{n}: caller's BytesIO content changed",
                         "case": dict(case, docs=[d])})
        flat = [x for t in ds for x in t]
        if any(x.startswith("SKIPPED") for x in flat):
            probes["doc_skipped_cpu_budget"] = probes.get("doc_skipped_cpu_budget", 0) + 1
            continue
        if len(set(flat)) > 1:
            # locate: which two executions differ, then diff the trees
            i_a, i_b = None, None
            for i in range(len(recs)):
                for j in range(i, len(recs)):
                    if ds[i][0] != ds[j][0] or ds[i][0] != ds[j][1] or ds[i][0] != ds[i][1]:
                        i_a, i_b = i, j
                        break
                if i_a is not None:
                    break
            same_proc = ds[i_a][0] != ds[i_a][1]
            path, va, vb, tname = "?", None, None, "?"
            try:
                ta = _spawn(cfgs[i_a], [d], case["pos_seed"], [n])["results"][n]
                tb = ta if i_a == i_b else _spawn(cfgs[i_b], [d], case["pos_seed"], [n])["results"][n]
                if ta.get("trees") and tb.get("trees"):
                    t1 = ta["trees"][0]
                    t2 = ta["trees"][1] if (same_proc and len(ta["trees"]) > 1) else tb["trees"][0]
                    fd = canon.first_diff(t1, t2)
                    if fd:
                        path, va, vb = fd
                    tname = (ta.get("types") or ["?"])[0]
                else:
                    path = f"outcome:{ta['digests'][0]}/{tb['digests'][0]}"
            except Exception as e:  # the diff is diagnostics only
                path = "diff-failed:" + type(e).__name__
            gp = canon.generic_path(path)
            small = dict(case, docs=[d], configs=[cfgs[i_a], cfgs[i_b]] if i_a != i_b else [cfgs[i_a]])
            if path == "?" or path.startswith(("outcome:", "diff-failed")):
                # not reproducible with this document alone: the result depends on what the process extracted before
                gp = "depends_on_earlier_extractions_in_process"
                tname = n.rsplit(".", 1)[-1]
                small = dict(case, configs=[cfgs[i_a], cfgs[i_b]] if i_a != i_b else [cfgs[i_a]])
            viol.append({"class": "nondeterministic_result", "sig": f"{tname}|{gp}", "case": small,
                         "detail": f"{n} ops={d['ops']}: to_json differs between configurations {i_a} and {i_b} at {path}: {str(va)[:120]!r} vs {str(vb)[:120]!r}; digests={ds}"})
    return {"violations": viol, "digest": log.digest(), "steps": log.n, "evals": evals, "faults": {}, "probes": probes,
            "nontrivial": sorted(nontriv), "states": [log.digest()[:8]], "summary": {"docs": len(docs), "configs": len(cfgs)}}


# ------------------------------------------------------------------------------------------------ observer mode
def _c(o):
    return canon.dumps(o)


def _observe(res, units_cache, op, i, n):
    """one observer call -> canonical value (string) ; None when not applicable"""
    if op == "full_text":
        return _c(res.get_full_text())
    if op == "units_all":
        return _c([[u.get_text(), u.to_json()] for u in res.iterate_units()])
    if op == "units_partial":
        it = iter(res.iterate_units())
        got = []
        for _ in range(i + 1):
            try:
                got.append(next(it).get_text())
            except StopIteration:
                break
        del it
        return ("partial", i + 1, _c(got))
    if op in ("unit_text", "unit_images", "unit_tables", "unit_meta", "unit_json"):
        us = list(res.iterate_units())
        if not us:
            return None
        u = us[i % len(us)]
        idx = i % len(us)
        if op == "unit_text":
            return (idx, _c(u.get_text()))
        if op == "unit_images":
            return (idx, _c([[im.get_content_type(), im.get_caption(), im.get_description(), dict(im.get_metadata()), im.get_bytes().getvalue()] for im in u.get_images()]))
        if op == "unit_tables":
            return (idx, _c([t.get_table() for t in u.get_tables()]))
        if op == "unit_meta":
            m = u.get_metadata()
            return (idx, _c(m.to_dict() if hasattr(m, "to_dict") else (m.__dict__ if hasattr(m, "__dict__") else repr(m))))
        return (idx, _c(u.to_json()))
    if op in ("images_all", "image_bytes", "image_meta"):
        ims = list(res.iterate_images())
        if op == "images_all":
            return _c([[im.get_content_type(), im.get_caption(), im.get_description(), dict(im.get_metadata())] for im in ims])
        if not ims:
            return None
        idx = i % len(ims)
        im = ims[idx]
        if op == "image_bytes":
            s = im.get_bytes()
            pos = s.tell()
            part = s.read(n)
            return (idx, pos, hashlib.sha256(s.getvalue()).hexdigest(), hashlib.sha256(part).hexdigest() if n >= 1000 else part.hex())
        return (idx, _c(dict(im.get_metadata())))
    if op in ("tables_all", "table_get", "table_dim"):
        ts = list(res.iterate_tables())
        if op == "tables_all":
            return _c([t.get_table() for t in ts])
        if not ts:
            return None
        idx = i % len(ts)
        t = ts[idx]
        if op == "table_get":
            return (idx, _c(t.get_table()))
        dm = t.get_dim()
        return (idx, _c([dm.rows, dm.columns]))
    if op == "metadata":
        m = res.get_metadata()
        return _c(m.to_dict() if hasattr(m, "to_dict") else repr(m))
    if op == "to_json":
        return _c(res.to_json())
    if op == "serialize_nobin":
        from sharepoint2text.parsing.extractors.serialization import serialize_extraction
        return _c(serialize_extraction(res, include_binary=False))
    if op == "json_dumps":
        return hashlib.sha256(json.dumps(res.to_json(), sort_keys=True).encode()).hexdigest()
    raise AssertionError(op)


def _key(op, v):
    if isinstance(v, tuple):
        if op == "units_partial":
            return (op, v[1]), v[2]
        if op == "image_bytes":
            return (op, v[0], "content"), (v[1], v[2])
        return (op, v[0]), v[1:]
    return (op,), v


def _run_observe(case):
    log = K.EventLog()
    log.ev("case", K.h64(K.jdump(case)))
    viol, probes, nontriv = [], {"observer_history": 1}, set()
    data = _apply(_docs[case["doc"]], case["ops"])
    name = case["doc"]
    bio = io.BytesIO(data)
    try:
        results = list(corpus.extractor_for(name)(bio, SIMPATH + "/" + os.path.basename(name)))
    except Exception as e:
        log.ev("rejected", type(e).__name__)
        return {"violations": [], "digest": log.digest(), "steps": log.n, "evals": 1, "faults": {}, "probes": probes, "nontrivial": [],
                "states": ["rejected"], "summary": {"rejected": type(e).__name__}}
    if bio.getvalue() != data:
        viol.append({"class": "input_buffer_modified", "sig": name.rsplit(".", 1)[-1], "detail": f"{name}: caller's BytesIO content changed"})
    if case["ops"]:
        probes["faulted_but_accepted_input"] = 1
    evals = 1
    for ri, res in enumerate(results[:3]):
        tname = type(res).__name__
        base = _c(res.to_json())
        model = {}
        first_op = {}
        log.ev("result", ri, tname, hashlib.sha256(base.encode()).hexdigest()[:16])
        kinds = []
        try:
            if next(iter(res.iterate_images()), None) is not None:
                probes["result_with_images"] = 1
        except Exception:
            pass
        for step, (op, i, n) in enumerate(case["obs"]):
            evals += 1
            try:
                v = _observe(res, None, op, i, n)
            except Exception as e:
                viol.append({"class": "observer_raised", "sig": f"{tname}|{op}|{type(e).__name__}", "detail": f"{name} step {step}: {op} raised {e!r}"})
                log.ev("obs-exc", step, op, type(e).__name__)
                continue
            if op == "units_partial":
                probes["partial_unit_iteration"] = 1
            kinds.append(op)
            if v is None:
                continue
            k, val = _key(op, v)
            log.ev("obs", step, op, hashlib.sha256(repr(val).encode()).hexdigest()[:12])
            if op == "image_bytes" and v[1] != 0:
                viol.append({"class": "observation_changed", "sig": f"{tname}|image_bytes|stream_position", "detail": f"{name} step {step}: get_bytes() at position {v[1]}"})
            if k in model:
                if model[k] != val:
                    path = "?"
                    try:
                        fd = canon.first_diff(json.loads(model[k]) if isinstance(model[k], str) else model[k], json.loads(val) if isinstance(val, str) else val)
                        if fd:
                            path = canon.generic_path(fd[0])
                    except Exception:
                        pass
                    between = sorted({o for o, _i, _n in case["obs"][first_op[k] + 1: step]})
                    viol.append({"class": "observation_changed", "sig": f"{tname}|{op}|{path}",
                                 "detail": f"{name} step {step}: {op}{k[1:]} returned a different value than at step {first_op[k]}; observers in between: {between}"})
            else:
                model[k] = val
                first_op[k] = step
            if op == "to_json" and val != base:
                fd = canon.first_diff(json.loads(base), json.loads(val))
                path = canon.generic_path(fd[0]) if fd else "?"
                viol.append({"class": "observation_changed", "sig": f"{tname}|to_json|{path}",
                             "detail": f"{name} step {step}: to_json() differs from the one taken right after extraction at {fd[0] if fd else '?'}; "
                                       f"observers before: {sorted({o for o, _i, _n in case['obs'][:step]})}"})
        after = _c(res.to_json())
        if after != base:
            fd = canon.first_diff(json.loads(base), json.loads(after))
            path = canon.generic_path(fd[0]) if fd else "?"
            viol.append({"class": "observation_changed", "sig": f"{tname}|to_json|{path}",
                         "detail": f"{name}: to_json() after the observer history differs at {fd[0] if fd else '?'}: {str(fd[1])[:80]!r} -> {str(fd[2])[:80]!r}"})
        nontriv.add(f"observe|{name}|{'mut' if case['ops'] else 'orig'}|{hashlib.sha1(' '.join(sorted(kinds)).encode()).hexdigest()[:8]}")
    seen, out = set(), []
    for v in viol:
        if (v["class"], v["sig"]) not in seen:
            seen.add((v["class"], v["sig"]))
            out.append(v)
    return {"violations": out, "digest": log.digest(), "steps": log.n, "evals": evals, "faults": {}, "probes": probes,
            "nontrivial": sorted(nontriv), "states": [log.digest()[:8]], "summary": {"results": len(results), "observer_calls": len(case["obs"])}}


def _run_interleave(case):
    """two result generators advanced alternately must yield what each yields on its own (extraction has no shared scratch state)"""
    log = K.EventLog()
    log.ev("case", K.h64(K.jdump(case)))
    viol = []
    tmp = os.path.join(K.sandbox_root(), f"c06-tmp-{os.getpid() % 10 ** 7:07d}")
    os.makedirs(tmp, exist_ok=True)
    import tempfile
    tempfile.tempdir = tmp

    def gen(n, slot=0):
        def g():  # routing happens inside: an unsupported name is an outcome of the run, not a harness error
            yield from corpus.extractor_for(n)(io.BytesIO(_docs[n]), SIMPATH + f"/slot{slot}/" + os.path.basename(n))
        return g()

    def drain(g):
        out, exc = [], None
        try:
            for r in g:
                out.append(canon.digest(r.to_json()))
        except Exception as e:
            exc = type(e).__name__
        return out, exc

    alone = [drain(gen(n, gi)) for gi, n in enumerate(case["docs"])]
    gens = [gen(n, gi) for gi, n in enumerate(case["docs"])]
    outs, excs, alive = [[], []], [None, None], [True, True]
    held = [[], []]  # the caller keeps every result: what a result says must not change when other extractions go on
    pattern = list(case["pattern"])
    i = 0
    while any(alive):
        gi = pattern[i % len(pattern)] if alive[pattern[i % len(pattern)]] else (1 - pattern[i % len(pattern)])
        i += 1
        if not alive[gi]:
            continue
        try:
            r = next(gens[gi])
            held[gi].append(r)
            outs[gi].append(canon.digest(r.to_json()))
        except StopIteration:
            alive[gi] = False
        except Exception as e:
            alive[gi] = False
            excs[gi] = type(e).__name__
    for gi, n in enumerate(case["docs"]):
        later = []
        for r in held[gi]:
            try:
                later.append(canon.digest(r.to_json()))
            except Exception as e:
                later.append("exc:" + type(e).__name__)
        if later != outs[gi]:
            viol.append({"class": "nondeterministic_result", "sig": f"{n.rsplit('.', 1)[-1]}|result_changed_by_later_extraction",
                         "detail": f"{n}: to_json() of a result held by the caller changed after further extraction work ({case['docs'][1 - gi]}) in the same process"})
    for gi, n in enumerate(case["docs"]):
        log.ev("interleave", n, len(outs[gi]), excs[gi], len(alone[gi][0]), alone[gi][1])
        if (outs[gi], excs[gi]) != alone[gi]:
            viol.append({"class": "nondeterministic_result", "sig": f"{n.rsplit('.', 1)[-1]}|depends_on_interleaved_extraction",
                         "detail": f"{n} consumed alternately with {case['docs'][1 - gi]}: {len(outs[gi])} results ({excs[gi]}), on its own {len(alone[gi][0])} ({alone[gi][1]})"})
    import shutil
    shutil.rmtree(tmp, ignore_errors=True)
    return {"violations": viol, "digest": log.digest(), "steps": log.n, "evals": 4, "faults": {}, "probes": {"interleaved_generators": 1},
            "nontrivial": [f"interleave|{case['docs'][0]}|{case['docs'][1]}"], "states": [log.digest()[:8]], "summary": {"mode": "interleave"}}


def run_case(case: dict) -> dict:
    if case["mode"] == "interleave":
        return _run_interleave(case)
    if case["mode"] == "config":
        return _run_config(case)
    return _run_observe(case)


# ------------------------------------------------------------------------------------------------ shrinking
def shrink(case):
    if case["mode"] == "interleave":
        if len(case["pattern"]) > 2:
            yield dict(case, pattern=case["pattern"][: len(case["pattern"]) // 2])
        yield dict(case, pattern=[0, 1])
        return
    if case["mode"] == "observe":
        obs = case["obs"]
        n = len(obs)
        if case["ops"]:
            yield dict(case, ops=[])
        chunk = max(1, n // 2)
        while chunk >= 1:
            for s in range(0, n, chunk):
                c = obs[:s] + obs[s + chunk:]
                if len(c) < n:
                    yield dict(case, obs=c)
            if chunk == 1:
                break
            chunk //= 2
        return
    docs, cfgs = case["docs"], case["configs"]
    if len(docs) > 1:
        for d in docs:
            yield dict(case, docs=[d])
        half = len(docs) // 2
        if half > 1:
            yield dict(case, docs=docs[:half])
            yield dict(case, docs=docs[half:])
        for i in range(len(docs)):
            yield dict(case, docs=docs[:i] + docs[i + 1:])
    for i, d in enumerate(docs):
        if d["ops"]:
            yield dict(case, docs=docs[:i] + [dict(d, ops=[])] + docs[i + 1:])
    if len(cfgs) > 2:
        for i in range(len(cfgs)):
            yield dict(case, configs=cfgs[:i] + cfgs[i + 1:])
    if len(cfgs) == 2:
        a, b = cfgs
        for k in ("hashseed", "clock_base", "clock_step", "junk", "pos", "reverse"):
            if a.get(k) != b.get(k):
                yield dict(case, configs=[a, dict(b, **{k: a.get(k)})])
