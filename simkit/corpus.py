"""Corpus: the repository's non-empty fixtures + small seed documents written at run time by stdlib writers."""
from __future__ import annotations

import email.message
import io
import os
import re
import tarfile
import zipfile

from . import kernel as K

_CACHE: dict[str, bytes] | None = None


def _fixtures() -> dict[str, bytes]:
    out = {}
    for root, _d, files in sorted(os.walk(K.FIXTURES)):
        for fn in sorted(files):
            p = os.path.join(root, fn)
            rel = os.path.relpath(p, K.FIXTURES)
            try:
                b = open(p, "rb").read()
            except OSError:
                continue
            if b:
                out["fx/" + rel] = b
    return out


def _zip(members: list[tuple[str, bytes]], method=zipfile.ZIP_DEFLATED) -> bytes:
    bio = io.BytesIO()
    with zipfile.ZipFile(bio, "w", method) as z:
        for name, data in members:
            zi = zipfile.ZipInfo(name, date_time=(2024, 1, 2, 3, 4, 6))
            zi.compress_type = zipfile.ZIP_STORED if name == "mimetype" else method
            z.writestr(zi, data)
    return bio.getvalue()


def _rezip(data: bytes, replace: dict[str, bytes | None]) -> bytes:
    """the same package with some members replaced (None: dropped)"""
    zin = zipfile.ZipFile(io.BytesIO(data))
    return _zip([(zi.filename, replace.get(zi.filename, zin.read(zi)) if zi.filename in replace else zin.read(zi)) for zi in zin.infolist()
                 if not (zi.filename in replace and replace[zi.filename] is None)])


def _tar(members: list[tuple[str, bytes]], mode="w") -> bytes:
    if mode == "w:gz":  # fixed gzip mtime: the bytes are a function of the members only
        import gzip
        out = io.BytesIO()
        with gzip.GzipFile(fileobj=out, mode="wb", mtime=0) as g:
            g.write(_tar(members, "w"))
        return out.getvalue()
    bio = io.BytesIO()
    with tarfile.open(fileobj=bio, mode=mode, format=tarfile.PAX_FORMAT) as t:
        for name, data in members:
            ti = tarfile.TarInfo(name)
            ti.size = len(data)
            ti.mtime = 1700000000
            t.addfile(ti, io.BytesIO(data))
    return bio.getvalue()


CT = ('<?xml version="1.0" encoding="UTF-8"?><Types xmlns="http://schemas.openxmlformats.org/package/2006/content-types">'
      '<Default Extension="rels" ContentType="application/vnd.openxmlformats-package.relationships+xml"/>'
      '<Default Extension="xml" ContentType="application/xml"/><Default Extension="png" ContentType="image/png"/>'
      '<Override PartName="/word/document.xml" ContentType="application/vnd.openxmlformats-officedocument.wordprocessingml.document.main+xml"/>'
      '<Override PartName="/docProps/core.xml" ContentType="application/vnd.openxmlformats-package.core-properties+xml"/></Types>')
RELS = ('<?xml version="1.0" encoding="UTF-8"?><Relationships xmlns="http://schemas.openxmlformats.org/package/2006/relationships">'
        '<Relationship Id="rId1" Type="http://schemas.openxmlformats.org/officeDocument/2006/relationships/officeDocument" Target="word/document.xml"/>'
        '<Relationship Id="rId2" Type="http://schemas.openxmlformats.org/package/2006/relationships/metadata/core-properties" Target="docProps/core.xml"/></Relationships>')
CORE = ('<?xml version="1.0" encoding="UTF-8"?><cp:coreProperties xmlns:cp="http://schemas.openxmlformats.org/package/2006/metadata/core-properties" '
        'xmlns:dc="http://purl.org/dc/elements/1.1/" xmlns:dcterms="http://purl.org/dc/terms/" xmlns:xsi="http://www.w3.org/2001/XMLSchema-instance">'
        '<dc:title>Sim Title</dc:title><dc:creator>Sim Author</dc:creator><dc:subject>Sim Subject</dc:subject><cp:keywords>k1, k2</cp:keywords>'
        '<dc:description>Sim Description</dc:description><dcterms:created xsi:type="dcterms:W3CDTF">2024-01-02T03:04:05Z</dcterms:created></cp:coreProperties>')
W = 'xmlns:w="http://schemas.openxmlformats.org/wordprocessingml/2006/main"'
PNG = bytes.fromhex("89504e470d0a1a0a0000000d4948445200000001000000010802000000907753de0000000c4944415408d763f8cfc000000301010018dd8db00000000049454e44ae426082")


def _docx() -> bytes:
    body = "".join(f'<w:p><w:pPr><w:pStyle w:val="{s}"/></w:pPr><w:r><w:t>{t}</w:t></w:r></w:p>'
                   for s, t in [("Heading1", "Alpha heading"), ("Normal", "first paragraph"), ("Quote", "second 123"), ("Normal", "third"),
                                ("ListParagraph", "item"), ("Title", "a title")])
    tbl = ('<w:tbl><w:tr><w:tc><w:p><w:r><w:t>a</w:t></w:r></w:p></w:tc><w:tc><w:p><w:r><w:t>b</w:t></w:r></w:p></w:tc></w:tr>'
           '<w:tr><w:tc><w:p><w:r><w:t>1</w:t></w:r></w:p></w:tc><w:tc><w:p><w:r><w:t>2</w:t></w:r></w:p></w:tc>'
           '<w:tc><w:p><w:r><w:t>3</w:t></w:r></w:p></w:tc></w:tr><w:tr><w:tc><w:p><w:r><w:t>x</w:t></w:r></w:p></w:tc></w:tr></w:tbl>')
    doc = f'<?xml version="1.0" encoding="UTF-8"?><w:document {W}><w:body>{body}{tbl}<w:sectPr/></w:body></w:document>'
    return _zip([("[Content_Types].xml", CT.encode()), ("_rels/.rels", RELS.encode()), ("word/document.xml", doc.encode()),
                 ("docProps/core.xml", CORE.encode())])


ODF_MANIFEST = ('<?xml version="1.0" encoding="UTF-8"?><manifest:manifest xmlns:manifest="urn:oasis:names:tc:opendocument:xmlns:manifest:1.0" manifest:version="1.2">'
                '<manifest:file-entry manifest:full-path="/" manifest:media-type="{mt}"/>'
                '<manifest:file-entry manifest:full-path="content.xml" manifest:media-type="text/xml"/>'
                '<manifest:file-entry manifest:full-path="meta.xml" manifest:media-type="text/xml"/></manifest:manifest>')
ODF_NS = ('xmlns:office="urn:oasis:names:tc:opendocument:xmlns:office:1.0" xmlns:text="urn:oasis:names:tc:opendocument:xmlns:text:1.0" '
          'xmlns:table="urn:oasis:names:tc:opendocument:xmlns:table:1.0" xmlns:draw="urn:oasis:names:tc:opendocument:xmlns:drawing:1.0" '
          'xmlns:style="urn:oasis:names:tc:opendocument:xmlns:style:1.0" xmlns:xlink="http://www.w3.org/1999/xlink" '
          'xmlns:svg="urn:oasis:names:tc:opendocument:xmlns:svg-compatible:1.0" xmlns:dc="http://purl.org/dc/elements/1.1/" '
          'xmlns:meta="urn:oasis:names:tc:opendocument:xmlns:meta:1.0" xmlns:presentation="urn:oasis:names:tc:opendocument:xmlns:presentation:1.0"')
ODF_META = (f'<?xml version="1.0" encoding="UTF-8"?><office:document-meta {ODF_NS} office:version="1.2"><office:meta>'
            '<dc:title>Sim Title</dc:title><meta:initial-creator>Sim Author</meta:initial-creator><dc:creator>Sim Author</dc:creator>'
            '<dc:subject>Sim Subject</dc:subject><meta:keyword>k1</meta:keyword><dc:description>Sim Description</dc:description>'
            '<meta:creation-date>2024-01-02T03:04:05</meta:creation-date></office:meta></office:document-meta>')


XLSX_CT = ('<?xml version="1.0" encoding="UTF-8"?><Types xmlns="http://schemas.openxmlformats.org/package/2006/content-types">'
           '<Default Extension="rels" ContentType="application/vnd.openxmlformats-package.relationships+xml"/><Default Extension="xml" ContentType="application/xml"/>'
           '<Override PartName="/xl/workbook.xml" ContentType="application/vnd.openxmlformats-officedocument.spreadsheetml.sheet.main+xml"/>'
           '<Override PartName="/xl/worksheets/sheet1.xml" ContentType="application/vnd.openxmlformats-officedocument.spreadsheetml.worksheet+xml"/>'
           '<Override PartName="/docProps/core.xml" ContentType="application/vnd.openxmlformats-package.core-properties+xml"/></Types>')
SS = 'xmlns="http://schemas.openxmlformats.org/spreadsheetml/2006/main"'


def _xlsx_ragged() -> bytes:
    """worksheet without a <dimension> element whose rows have different lengths"""
    def c(ref, v):
        return f'<c r="{ref}" t="inlineStr"><is><t>{v}</t></is></c>'
    typed = ('<row r="4"><c r="A4" s="1"><v>0.5</v></c><c r="B4" s="2"><v>45000</v></c><c r="C4" s="3"><v>45000.75</v></c>'
             '<c r="D4"><v>3.25</v></c><c r="E4" t="b"><v>1</v></c><c r="F4" t="e"><v>#DIV/0!</v></c></row>')
    rows = ('<row r="1">' + c("A1", "h1") + c("B1", "h2") + '</row><row r="2">' + c("A2", "a") + c("B2", "b") + c("C2", "c") + c("D2", "d") + '</row>'
            '<row r="3">' + c("A3", "only") + '</row>' + typed)
    sheet = f'<?xml version="1.0" encoding="UTF-8"?><worksheet {SS}><sheetData>{rows}</sheetData></worksheet>'
    wb = (f'<?xml version="1.0" encoding="UTF-8"?><workbook {SS} xmlns:r="http://schemas.openxmlformats.org/officeDocument/2006/relationships">'
          '<sheets><sheet name="Ragged" sheetId="1" r:id="rId1"/></sheets></workbook>')
    wrels = ('<?xml version="1.0" encoding="UTF-8"?><Relationships xmlns="http://schemas.openxmlformats.org/package/2006/relationships">'
             '<Relationship Id="rId1" Type="http://schemas.openxmlformats.org/officeDocument/2006/relationships/worksheet" Target="worksheets/sheet1.xml"/></Relationships>')
    rels = RELS.replace("word/document.xml", "xl/workbook.xml")
    styles = (f'<?xml version="1.0" encoding="UTF-8"?><styleSheet {SS}><fonts count="1"><font><sz val="11"/><name val="Calibri"/></font></fonts>'
              '<fills count="1"><fill><patternFill patternType="none"/></fill></fills><borders count="1"><border/></borders>'
              '<cellStyleXfs count="1"><xf numFmtId="0" fontId="0" fillId="0" borderId="0"/></cellStyleXfs>'
              '<cellXfs count="4"><xf numFmtId="0" fontId="0" fillId="0" borderId="0" xfId="0"/>'
              '<xf numFmtId="21" fontId="0" fillId="0" borderId="0" xfId="0" applyNumberFormat="1"/>'
              '<xf numFmtId="14" fontId="0" fillId="0" borderId="0" xfId="0" applyNumberFormat="1"/>'
              '<xf numFmtId="22" fontId="0" fillId="0" borderId="0" xfId="0" applyNumberFormat="1"/></cellXfs></styleSheet>')
    wrels = wrels.replace("</Relationships>", '<Relationship Id="rId2" Type="http://schemas.openxmlformats.org/officeDocument/2006/relationships/styles" Target="styles.xml"/></Relationships>')
    ct = XLSX_CT.replace("</Types>", '<Override PartName="/xl/styles.xml" ContentType="application/vnd.openxmlformats-officedocument.spreadsheetml.styles+xml"/></Types>')
    return _zip([("[Content_Types].xml", ct.encode()), ("_rels/.rels", rels.encode()), ("xl/workbook.xml", wb.encode()),
                 ("xl/_rels/workbook.xml.rels", wrels.encode()), ("xl/worksheets/sheet1.xml", sheet.encode()), ("xl/styles.xml", styles.encode()),
                 ("docProps/core.xml", CORE.encode())])


def _odf(mt: str, body: str, extra: list[tuple[str, bytes]] = ()) -> bytes:
    content = f'<?xml version="1.0" encoding="UTF-8"?><office:document-content {ODF_NS} office:version="1.2"><office:body>{body}</office:body></office:document-content>'
    return _zip([("mimetype", mt.encode()), ("content.xml", content.encode()), ("meta.xml", ODF_META.encode()),
                 ("META-INF/manifest.xml", ODF_MANIFEST.format(mt=mt).encode())] + list(extra))


def _odf_picture_frames() -> tuple[str, list[tuple[str, bytes]]]:
    """picture frames over every absent / empty / filled combination of the optional descriptive children, and over the picture
    kinds a packer may embed (png, a vector format routed by name only, a missing target)"""
    frames, files = [], []
    i = 0
    for title in (None, "", "T"):
        for desc in (None, "", "D"):
            for name in (None, "N"):
                i += 1
                href = [f"Pictures/p{i}.png", f"Pictures/v{i}.emf", f"Pictures/w{i}.wmf", "Pictures/missing.png"][i % 4]
                data = [PNG, b"\x01\x00\x00\x00" + b"\0" * 36 + b" EMF" + b"\0" * 44, b"\xd7\xcd\xc6\x9a" + b"\0" * 40, None][i % 4]
                if data is not None:
                    files.append((href, data + bytes([i])))
                t = "" if title is None else ("<svg:title/>" if title == "" else f"<svg:title>{title}{i}</svg:title>")
                d = "" if desc is None else ("<svg:desc/>" if desc == "" else f"<svg:desc>{desc}{i}</svg:desc>")
                n = "" if name is None else f' draw:name="{name}{i}"'
                frames.append(f'<draw:frame{n} svg:width="2.54cm" svg:height="1.27cm"><draw:image xlink:href="{href}" xlink:type="simple"/>{t}{d}</draw:frame>')
    return "".join(frames), files


def _odf_pictures(kind: str) -> bytes:
    fr, extra = _odf_picture_frames()
    if kind == "odp":
        return _odf("application/vnd.oasis.opendocument.presentation",
                    f'<office:presentation><draw:page draw:name="p1">{fr}</draw:page></office:presentation>', extra)
    if kind == "odg":
        return _odf("application/vnd.oasis.opendocument.graphics", f'<office:drawing><draw:page draw:name="p1">{fr}</draw:page></office:drawing>', extra)
    if kind == "ods":
        return _odf("application/vnd.oasis.opendocument.spreadsheet",
                    f'<office:spreadsheet><table:table table:name="S1"><table:shapes>{fr}</table:shapes><table:table-row><table:table-cell office:value-type="string">'
                    f'<text:p>c</text:p></table:table-cell></table:table-row></table:table></office:spreadsheet>', extra)
    return _odf("application/vnd.oasis.opendocument.text", f'<office:text><text:p>before</text:p><text:p>{fr}</text:p><text:p>after</text:p></office:text>', extra)


def _odt() -> bytes:
    b = ('<office:text><text:h text:style-name="Heading_20_1" text:outline-level="1">Head one</text:h>'
         '<text:p text:style-name="Standard">para one</text:p><text:p text:style-name="P1">para <text:span text:style-name="T1">two</text:span></text:p>'
         '<text:p text:style-name="Quotations">q</text:p><table:table table:name="T"><table:table-column table:number-columns-repeated="2"/>'
         '<table:table-row><table:table-cell><text:p>a</text:p></table:table-cell><table:table-cell><text:p>b</text:p></table:table-cell></table:table-row>'
         '</table:table><text:p text:style-name="Text_20_body">end</text:p></office:text>')
    return _odf("application/vnd.oasis.opendocument.text", b)


def _ods() -> bytes:
    b = ('<office:spreadsheet><table:table table:name="S1"><table:table-column table:number-columns-repeated="3"/>'
         '<table:table-row><table:table-cell office:value-type="string"><text:p>h1</text:p></table:table-cell>'
         '<table:table-cell office:value-type="float" office:value="12"><text:p>12</text:p></table:table-cell>'
         '<table:table-cell table:number-columns-repeated="2" office:value-type="string"><text:p>r</text:p></table:table-cell></table:table-row>'
         '<table:table-row table:number-rows-repeated="2"><table:table-cell office:value-type="string"><text:p>x</text:p></table:table-cell>'
         '<table:table-cell table:number-columns-repeated="3"/></table:table-row></table:table>'
         '<table:table table:name="S2"><table:table-row><table:table-cell office:value-type="boolean" office:boolean-value="true"><text:p>TRUE</text:p></table:table-cell>'
         '</table:table-row></table:table></office:spreadsheet>')
    return _odf("application/vnd.oasis.opendocument.spreadsheet", b)


def _odp() -> bytes:
    b = ('<office:presentation><draw:page draw:name="p1"><draw:frame presentation:class="title"><draw:text-box><text:p>Slide one</text:p></draw:text-box></draw:frame>'
         '<draw:frame><draw:text-box><text:p>body text</text:p></draw:text-box></draw:frame></draw:page>'
         '<draw:page draw:name="p2"><draw:frame><draw:text-box><text:p>Slide two</text:p></draw:text-box></draw:frame></draw:page></office:presentation>')
    return _odf("application/vnd.oasis.opendocument.presentation", b)


def _epub() -> bytes:
    container = ('<?xml version="1.0"?><container version="1.0" xmlns="urn:oasis:names:tc:opendocument:xmlns:container"><rootfiles>'
                 '<rootfile full-path="OEBPS/content.opf" media-type="application/oebps-package+xml"/></rootfiles></container>')
    opf = ('<?xml version="1.0"?><package xmlns="http://www.idpf.org/2007/opf" version="3.0" unique-identifier="id"><metadata xmlns:dc="http://purl.org/dc/elements/1.1/">'
           '<dc:identifier id="id">urn:x</dc:identifier><dc:title>Sim Title</dc:title><dc:creator>Sim Author</dc:creator><dc:language>en</dc:language>'
           '<dc:subject>Sim Subject</dc:subject><dc:description>Sim Description</dc:description></metadata><manifest>'
           '<item id="c1" href="c1.xhtml" media-type="application/xhtml+xml"/><item id="c2" href="c2.xhtml" media-type="application/xhtml+xml"/>'
           '<item id="im" href="i.png" media-type="image/png"/></manifest><spine><itemref idref="c1"/><itemref idref="c2"/></spine></package>')
    ch = '<?xml version="1.0"?><html xmlns="http://www.w3.org/1999/xhtml"><head><title>{t}</title></head><body><h1>{t}</h1><p>text of {t}</p>{x}</body></html>'
    return _zip([("mimetype", b"application/epub+zip"), ("META-INF/container.xml", container.encode()), ("OEBPS/content.opf", opf.encode()),
                 ("OEBPS/c1.xhtml", ch.format(t="Chapter 1", x='<img src="i.png" alt="pic"/>').encode()),
                 ("OEBPS/c2.xhtml", ch.format(t="Chapter 2", x="<table><tr><td>a</td><td>b</td></tr></table>").encode()), ("OEBPS/i.png", PNG)])


def _eml(attach: list[tuple[str, bytes]] = ()) -> bytes:
    m = email.message.EmailMessage()
    m["From"] = "Alice <alice@example.org>"
    m["To"] = "Bob <bob@example.org>"
    m["Subject"] = "Sim subject"
    m["Date"] = "Tue, 02 Jan 2024 03:04:05 +0000"
    m["Message-ID"] = "<sim-1@example.org>"
    m.set_content("plain body line\nsecond line\n")
    m.add_alternative("<html><body><p>html body</p></body></html>", subtype="html")
    for name, data in attach:
        m.add_attachment(data, maintype="application", subtype="octet-stream", filename=name)
    return m.as_bytes()


def _mbox() -> bytes:
    out = b""
    for i in range(3):
        out += f"From sender{i}@example.org Tue Jan  2 03:04:0{i} 2024\n".encode()
        out += (f"From: s{i}@example.org\nTo: r@example.org\nSubject: msg {i}\nDate: Tue, 02 Jan 2024 03:04:0{i} +0000\n"
                f"Message-ID: <m{i}@example.org>\n\nbody {i}\n>From escaped\n\n").encode()
    return out


def _mail_charsets(kind: str) -> bytes:
    """messages whose text parts and headers declare the less common charsets; one body stops inside a UTF-7 / UTF-16 surrogate pair
    (what a cut transfer leaves behind): decoding such text must still give well-formed Unicode"""
    parts = [("utf-7", b"smile +2D3eAA- end\n", "=?utf-7?Q?caf+AOk-?="),
             ("utf-7", b"cut +2D0- inside the pair\n", "=?utf-7?Q?half_+2D0-?="),
             ("utf-16", "sixteen \U0001F600\n".encode("utf-16"), "=?utf-16-be?B?" + __import__("base64").b64encode("t\u00e9".encode("utf-16-be")).decode() + "?="),
             ("unicode_escape", b"esc \\ud83d alone\n", "=?unicode_escape?Q?x=5Cud800y?="),
             ("iso-8859-15", b"euro \xa4 sign\n", "=?iso-8859-15?Q?=A4?="),
             ("x-unknown-charset", b"bytes \xff\xfe here\n", "=?x-unknown?Q?abc?=")]
    out = b""
    for i, (cs, body, subj) in enumerate(parts):
        msg = (f"From: s{i}@example.org\nTo: r@example.org\nSubject: {subj}\nDate: Tue, 02 Jan 2024 03:04:0{i} +0000\n"
               f"Message-ID: <c{i}@example.org>\nMIME-Version: 1.0\nContent-Type: text/plain; charset={cs}\nContent-Transfer-Encoding: 8bit\n\n").encode() + body + b"\n"
        if kind == "eml":
            if i == 1:
                return msg
            continue
        out += f"From sender{i}@example.org Tue Jan  2 03:04:0{i} 2024\n".encode() + msg
    return out


RTF1 = (r"{\rtf1\ansi\deff0{\fonttbl{\f0 Times;}}{\info{\title Sim Title}{\author Sim Author}{\subject Sim Subject}{\keywords k1, k2}}"
        r"{\header\pard Annual report \emdash draft \bullet  page\par}{\footer\pard left \endash  right \lquote q\rquote\par}\pard Hello \b bold\b0  world\par Second \'80 euro \u-10179?\u-8704? emoji\par{\footnote This \emdash  is a considerably longer footnote text {\i with a nested group that is itself fairly long and wordy enough to matter} and more plain words after it}\page Page two\par"
        r"\trowd\cellx1000\cellx2000 a\cell b\cell\row\pard end}").encode()
RTF2 = (r"{\rtf1\ansi\ansicpg1252 {\fonttbl\f0\froman\fcharset0 Times New Roman;\f1\fswiss\fcharset0 Arial;\f2\fmodern\fcharset0 Courier New;"
        r"\f3\fnil\fcharset2 Symbol;\f4\fswiss\fcharset0 Helvetica;{\f9\fswiss{\*\falt Arial}Liberation Sans;}}"
        r"{\stylesheet\s0 Normal;\s1 heading 1;{\s2{\*\keycode x}heading 2;}}{\*\generator x;}{\colortbl;\red0\green0\blue0;}\pard\f0 caf\'e9 \u233? na\'efve {\i nested {\b deep}} text\par lone high \u-10179? and lone low \u-8704? and positive \u55357? units\par}").encode()
HTML1 = (b"<!DOCTYPE html><html><head><title>Sim Title</title><meta name=\"author\" content=\"Sim Author\"><meta name=\"description\" content=\"Sim Description\">"
         b"<meta name=\"keywords\" content=\"k1, k2\"><style>p{color:red}</style><script>var x=1;</script></head><body><h1>Head</h1><p>para &amp; text</p>"
         b"<table><tr><th>h</th><th>i</th></tr><tr><td>1</td><td>2</td><td>3</td><td>4</td></tr><tr><td>only</td></tr></table><ul><li>one</li><li>two</li></ul><img src=\"a.png\" alt=\"pic\"></body></html>")
MHTML1 = (b"From: <Saved by Sim>\r\nSubject: Sim page\r\nMIME-Version: 1.0\r\nContent-Type: multipart/related; type=\"text/html\"; boundary=\"----b1\"\r\n\r\n"
          b"------b1\r\nContent-Type: text/html; charset=\"utf-8\"\r\nContent-Transfer-Encoding: quoted-printable\r\nContent-Location: http://x/\r\n\r\n"
          b"<html><head><title>Sim page</title></head><body><p>mhtml body =C3=A9</p></body></html>\r\n------b1--\r\n")


def generated() -> dict[str, bytes]:
    g: dict[str, bytes] = {}
    g["gen/a.txt"] = "plain text line one\nline two with ünïcödé\n".encode()
    g["gen/latin1.txt"] = "caf\xe9 na\xefve\n".encode("latin-1")
    g["gen/utf16.txt"] = "utf sixteen text\n".encode("utf-16")
    g["gen/a.csv"] = b"a,b,c\n1,2,3\n4,5,6\n"
    # text files whose extension the router does not know: unsupported in any process, whatever was extracted before
    g["gen/server.log"] = b"2024-01-02 03:04:05 INFO started\n"
    g["gen/settings.ini"] = b"[main]\nkey = value\n"
    g["gen/app.conf"] = b"listen 80;\n"
    g["gen/tool.cfg"] = b"[tool]\nname = x\n"
    g["gen/data.yaml"] = b"a: 1\nb: [2, 3]\n"
    g["gen/a.tsv"] = b"a\tb\n1\t2\n"
    g["gen/a.json"] = b'{"k": [1, 2, {"x": "y"}], "t": "text"}'
    g["gen/a.md"] = b"# Title\n\nSome *markdown* text.\n"
    g["gen/a.html"] = HTML1
    g["gen/a.htm"] = HTML1
    g["gen/b.html"] = HTML1.replace(b"Sim Title", b"Other Title").replace(b"Head", b"Second heading").replace(b"Sim Author", b"Other Author")
    g["gen/c.html"] = b"<html><head><title>Third</title></head><body><p>third body</p></body></html>"
    g["gen/deeper.html"] = b"<html><body>" + b"<div>" * 30000 + b"very deep" + b"</div>" * 30000 + b"</body></html>"
    g["gen/hebrew.html"] = (b'<html><head><meta charset="iso-8859-8-i"><title>t</title></head><body><p>' + "שלום עולם".encode("iso-8859-8") + b"</p></body></html>")
    g["gen/utf7.html"] = b'<html><head><meta charset="utf-7"><title>plain title</title></head><body><p>smile +2D3eAA- and half +2AA- a pair</p></body></html>'
    g["gen/arabic.html"] = (b'<html><head><meta charset="windows-874"><title>t</title></head><body><p>\xa1\xa2\xa3 thai</p></body></html>')
    g["gen/a.mhtml"] = MHTML1
    g["gen/a.mht"] = MHTML1
    g["gen/a.rtf"] = RTF1
    g["gen/b.rtf"] = RTF2
    g["gen/a.docx"] = _docx()
    g["gen/a.dotx"] = g["gen/a.docx"]
    g["gen/ragged.xlsx"] = _xlsx_ragged()
    g["gen/a.odt"] = _odt()
    g["gen/a.ott"] = g["gen/a.odt"]
    g["gen/a.ods"] = _ods()
    g["gen/a.odp"] = _odp()
    for k in ("odt", "odp", "ods", "odg"):
        g[f"gen/pictures.{k}"] = _odf_pictures(k)
    # the same packages with every descriptive property present but EMPTY (element there, no text) -- what a template or an
    # exporter that fills nothing in leaves behind; and with the properties part missing altogether
    empty_core = CORE
    for tag in ("dc:title", "dc:creator", "dc:subject", "cp:keywords", "dc:description"):
        empty_core = re.sub(rf"<{tag}>[^<]*</{tag}>", f"<{tag}/>", empty_core)
    empty_core = re.sub(r"<dcterms:created [^>]*>[^<]*</dcterms:created>",
                        '<dcterms:created xsi:type="dcterms:W3CDTF"/><dcterms:modified xsi:type="dcterms:W3CDTF"></dcterms:modified>', empty_core)
    for k in ("docx", "xlsx"):
        src = g["gen/a.docx"] if k == "docx" else g["gen/ragged.xlsx"]
        g[f"gen/emptycore.{k}"] = _rezip(src, {"docProps/core.xml": empty_core.encode()})
        g[f"gen/nocore.{k}"] = _rezip(src, {"docProps/core.xml": None})
    # properties whose text ends in characters that date / number clean-up code likes to strip
    core_z = CORE.replace("Sim Title", "Generation Z").replace("Sim Author", "Jay-Z").replace("Sim Subject", " padded XYZ").replace("k1, k2", "A to Z, 0").replace("Sim Description", "ends with 000Z")
    g["gen/coreZ.docx"] = _rezip(g["gen/a.docx"], {"docProps/core.xml": core_z.encode()})
    g["gen/coreZ.xlsx"] = _rezip(g["gen/ragged.xlsx"], {"docProps/core.xml": core_z.encode()})
    fxs = _fixtures()
    for fx, out in (("fx/modern_ms/pptx_table.pptx", "pptx"),):
        if fx in fxs:
            g[f"gen/coreZ.{out}"] = _rezip(fxs[fx], {"docProps/core.xml": core_z.encode()})
            g[f"gen/emptycore.{out}"] = _rezip(fxs[fx], {"docProps/core.xml": empty_core.encode()})
            g[f"gen/nocore.{out}"] = _rezip(fxs[fx], {"docProps/core.xml": None})
    meta_z = ODF_META.replace("Sim Title", "Generation Z").replace("Sim Author", "Jay-Z").replace("Sim Subject", " padded XYZ").replace("Sim Description", "ends with 000Z")
    for k2 in ("odt", "ods", "odp"):
        g[f"gen/metaZ.{k2}"] = _rezip(g[f"gen/a.{k2}"], {"meta.xml": meta_z.encode()})
        g[f"gen/nometa.{k2}"] = _rezip(g[f"gen/a.{k2}"], {"meta.xml": None})
    empty_meta = re.sub(r"<(dc:title|meta:initial-creator|dc:creator|dc:subject|meta:keyword|dc:description|meta:creation-date)>[^<]*</\1>", r"<\1/>", ODF_META)
    g["gen/emptymeta.odt"] = _rezip(g["gen/a.odt"], {"meta.xml": empty_meta.encode()})
    g["gen/emptymeta.ods"] = _rezip(g["gen/a.ods"], {"meta.xml": empty_meta.encode()})
    g["gen/a.epub"] = _epub()
    zin = zipfile.ZipFile(io.BytesIO(g["gen/a.epub"]))
    g["gen/rights.epub"] = _zip([(zi.filename, zin.read(zi)) for zi in zin.infolist()] +
                                [("META-INF/rights.xml", b'<?xml version="1.0"?><adept:rights xmlns:adept="http://ns.adobe.com/adept"><licenseToken/></adept:rights>')])
    g["gen/a.eml"] = _eml()
    g["gen/att.eml"] = _eml([("note.txt", b"attached text\n"), ("doc.docx", g["gen/a.docx"]), ("blob.bin", b"\x00\x01\x02")])
    g["gen/a.mbox"] = _mbox()
    # recipients repeated / many recipients / group syntax
    g["gen/recipients.eml"] = (b"From: Alice <alice@example.org>\nTo: Bob <bob@example.org>, carol@example.org, Bob <bob@example.org>, \"Dan, D.\" <dan@example.org>\n"
                               b"Cc: erin@example.org, frank@example.org, erin@example.org, Team: gina@example.org, hal@example.org;\nBcc: bob@example.org\n"
                               b"Reply-To: alice@example.org, alice@example.org\nSubject: recipients\nDate: Tue, 02 Jan 2024 03:04:05 +0000\nMessage-ID: <r-1@example.org>\n\nbody\n")
    g["gen/recipients.mbox"] = b"From alice@example.org Tue Jan  2 03:04:05 2024\n" + g["gen/recipients.eml"] + b"\n"
    g["gen/charsets.mbox"] = _mail_charsets("mbox")
    g["gen/charset-utf7-cut.eml"] = _mail_charsets("eml")
    g["gen/deep.html"] = b"<html><body>" + b"<div>" * 1500 + b"deep text" + b"</div>" * 1500 + b"</body></html>"
    g["gen/deep.rtf"] = b"{\\rtf1\\ansi " + b"{\\b " * 600 + b"deep" + b"}" * 600 + b"}"
    g["gen/deep.json"] = b"[" * 3000 + b"1" + b"]" * 3000
    members = [("one.txt", b"member one\n"), ("d/two.csv", b"x,y\n1,2\n"), ("three.html", HTML1), ("four.docx", g["gen/a.docx"])]
    g["gen/a.zip"] = _zip(members)
    g["gen/stored.zip"] = _zip(members, zipfile.ZIP_STORED)
    g["gen/a.tar"] = _tar(members)
    g["gen/a.tar.gz"] = _tar(members, "w:gz")
    g["gen/a.tgz"] = g["gen/a.tar.gz"]
    g["gen/a.tar.bz2"] = _tar(members, "w:bz2")
    g["gen/a.tar.xz"] = _tar(members, "w:xz")
    from .sevenz_writer import write_7z
    ents = [{"name": n, "data": d} for n, d in members] + [{"name": "empty dir", "data": None}, {"name": "d/empty.txt", "data": b""}]
    g["gen/a.7z"] = write_7z(ents, layout="solid", method="lzma2")
    g["gen/perfile.7z"] = write_7z(ents, layout="per_file", method="copy", encoded_header=True)
    # a 7z whose packed ("encoded") end header is stored with the Copy method at the very place where the end header itself lives:
    # unpacking it yields the same packed header again (readers that unpack headers in a loop must notice)
    import struct as _st
    import zlib as _zl

    def _endh(n):
        return bytes([0x17, 0x06, 0x00, 0x01, 0x09, n, 0x00, 0x07, 0x0B, 0x01, 0x00, 0x01, 0x01, 0x00, 0x0C, n, 0x00, 0x00])
    _h = _endh(len(_endh(0)))
    _tail = _st.pack("<QQI", 0, len(_h), _zl.crc32(_h) & 0xFFFFFFFF)
    g["gen/selfref-header.7z"] = b"7z\xbc\xaf\x27\x1c" + bytes([0, 4]) + _st.pack("<I", _zl.crc32(_tail) & 0xFFFFFFFF) + _tail + _h
    # an EPUB whose second chapter stops inside a comment (a parser that is fed this keeps the tail buffered)
    _zin = zipfile.ZipFile(io.BytesIO(g["gen/a.epub"]))
    g["gen/cutchapter.epub"] = _zip([(zi.filename, (_zin.read(zi)[:-40] + b"<p>before</p><!-- dra") if zi.filename.endswith("c2.xhtml") else _zin.read(zi)) for zi in _zin.infolist()])
    # an archive that is refused because of a member name, the name holding a line break (error messages quote it)
    g["gen/unsafe-name-newline.7z"] = write_7z([{"name": "../esc\nape.txt", "data": b"x\n"}, {"name": "ok.txt", "data": b"fine\n"}], method="copy")
    return g


def _ppt_with_dib(ppt: bytes) -> bytes | None:
    """the PPT picture fixture with its first picture record rewritten in place (same stream length) as a DIB record, the one
    picture kind the extractor re-wraps (adds a BMP file header) before handing it out; the displaced PNG follows, shortened"""
    import struct
    import olefile
    bio = io.BytesIO(ppt)
    try:
        ole = olefile.OleFileIO(bio, write_mode=True)
        p = ole.openstream("Pictures").read()
        _vi, t, ln = struct.unpack_from("<HHI", p, 0)
        if t != 0xF01E or ln < 4096:
            return None

        def rec(inst, typ, payload):
            return struct.pack("<HHI", inst << 4, typ, len(payload)) + payload

        dib = struct.pack("<IiiHHIIiiII", 40, 2, 2, 1, 24, 0, 16, 2835, 2835, 0, 0) + bytes([10, 20, 30, 40, 50, 60, 0, 0, 70, 80, 90, 100, 110, 120, 0, 0])
        r1 = rec(0x7A8, 0xF01F, bytes(range(16)) + b"\xff" + dib)
        rest = 8 + ln - len(r1) - 8
        r2 = rec(0x6E0, 0xF01E, bytes([1]) * 16 + b"\xff" + p[8 + 17: 8 + 17 + rest - 17])
        new = r1 + r2 + p[8 + ln:]
        if len(new) != len(p):
            return None
        ole.write_stream("Pictures", new)
        ole.close()
        return bio.getvalue()
    except Exception:
        return None


def corpus() -> dict[str, bytes]:
    global _CACHE
    if _CACHE is None:
        c = _fixtures()
        c.update(generated())
        if "fx/legacy_ms/ppt_with_images.ppt" in c:
            d = _ppt_with_dib(c["fx/legacy_ms/ppt_with_images.ppt"])
            if d:
                c["gen/dib.ppt"] = d
        _CACHE = c
    return _CACHE


SPLICE = ["gen/a.txt", "gen/a.html", "fx/pdf/sample.pdf", "gen/a.docx", "fx/legacy_ms/mwe.xls", "gen/a.eml", "gen/a.rtf",
          "fx/archives/test_archive.7z", "gen/a.odt", "fx/modern_ms/mwe.xlsx"]


def splice_sources() -> list[bytes]:
    c = corpus()
    return [c[n] for n in SPLICE if n in c]


def route_name(name: str) -> str:
    """file name used for routing a corpus document (its own extension)"""
    return os.path.basename(name)


def extractor_for(name: str):
    from sharepoint2text.parsing.router import get_extractor
    return get_extractor(route_name(name))


def registry() -> dict[str, tuple[str, str]]:
    from sharepoint2text.parsing import router
    return dict(router._EXTRACTOR_REGISTRY)


def all_extensions() -> list[str]:
    from sharepoint2text.parsing import router
    return sorted(set(router._EXTRACTOR_REGISTRY) | set(router._EXTENSION_ALIASES)) + ["tar.gz", "tar.bz2", "tar.xz"]


def pin_randomness() -> None:
    """Seam: randomness.  mail-parser names filename-less attachment parts with random_string(); inside a simulation every source of
    randomness is owned by the simulator, so the name becomes a constant (C06's configuration processes do NOT pin it: there the
    difference between two extractions is exactly what is looked for, see known finding c06-mailparser-random-attachment-names)."""
    try:
        import mailparser.core as mc
        import mailparser.utils as mu

        def random_string(string_length=10):
            return "simrandom0"[:string_length].ljust(string_length, "0")

        mc.random_string = random_string
        mu.random_string = random_string
    except Exception:
        pass


def warm_all(extract: bool = True) -> None:
    """import every extractor module and extract one benign file per format (fills lazy imports and caches)"""
    import importlib
    pin_randomness()
    for mod, _fn in registry().values():
        importlib.import_module(mod)
    if not extract:
        return
    seen = set()
    for name, data in corpus().items():
        ext = name.rsplit(".", 1)[-1].lower()
        if ext in seen or "password" in name:
            continue
        seen.add(ext)
        with K.cpu_guard(60):
            try:
                for r in extractor_for(name)(io.BytesIO(data), None):
                    r.get_full_text()
                    r.to_json()
            except Exception:
                pass
