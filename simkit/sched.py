"""schedsim: a seeded, replayable scheduler for real threads (seam S8, DESIGN.md 2.1).

Exactly one managed task runs at a time (baton = per-task gate lock).  A task can lose the baton only
 (a) at a pre-emption point (sys.monitoring PY_START / LINE event on an instrumented code object),
 (b) when it blocks on a simulated lock, (c) when it finishes.
Every choice is drawn from one PRNG (generate mode) or read from a recorded schedule (replay mode).
"""
from __future__ import annotations

import _thread
import random
import sys
import threading
import time
import types

TOOL = 2


class Deadlock(Exception):
    pass


class Task:
    def __init__(self, idx, fn):
        self.idx = idx
        self.fn = fn
        self.gate = _thread.allocate_lock()
        self.gate.acquire()
        self.state = "new"  # new | runnable | blocked | done
        self.blocked_on = None
        self.result = None
        self.error = None
        self.thread = None
        self.ident = None
        self.nopreempt = 0
        self.steps = 0


class Sched:
    def __init__(self, *, rng: random.Random | None, schedule: dict | None, p_call: float, p_line: float, log, max_steps=5_000_000):
        self.rng = rng
        self.replay = schedule  # {'switches': [[step, task], ...], 'forced': [task, ...]}
        self._sw = {int(s): int(t) for s, t in (schedule or {}).get("switches", [])}
        self._forced = list((schedule or {}).get("forced", []))
        self._forced_i = 0
        self.p_call = p_call
        self.p_line = p_line
        self.log = log
        self.tasks: list[Task] = []
        self.by_ident: dict[int, Task] = {}
        self.current: Task | None = None
        self.step = 0
        self.switches: list[list[int]] = []
        self.forced: list[int] = []
        self.main_gate = _thread.allocate_lock()
        self.main_gate.acquire()
        self.deadlock = None
        self.max_steps = max_steps
        self.overrun = False
        self.locks: list[SimLock] = []
        self.on_line = None  # optional callback(task, code, line) for probes / projections
        self.active = False
        self.force = False  # set by on_line: switch away from the running task at this very point (systematic section exploration)
        self.change_points: set[int] = set()  # PCT-style: the only pre-emptions are at these step numbers; whoever is switched to keeps running

    # ---------------------------------------------------------------- task plumbing
    def add(self, fn) -> Task:
        t = Task(len(self.tasks), fn)
        self.tasks.append(t)
        return t

    def _body(self, t: Task):
        t.gate.acquire()  # wait for the baton
        try:
            t.result = t.fn()
        except BaseException as e:  # noqa
            t.error = e
        t.state = "done"
        self.log.ev("task-done", t.idx, type(t.error).__name__ if t.error else None)
        self._handoff(t, finished=True)

    def _runnable(self, exclude=None):
        return [x for x in self.tasks if x.state == "runnable" and x is not exclude]

    def _pick_forced(self, cands: list[Task]) -> Task:
        """choice of the next task when the current one cannot continue (finished / blocked)"""
        if self.replay is not None:
            want = self._forced[self._forced_i] if self._forced_i < len(self._forced) else None
            self._forced_i += 1
            nxt = next((c for c in cands if c.idx == want), cands[0])
        else:
            nxt = cands[self.rng.randrange(len(cands))] if len(cands) > 1 else cands[0]
        self.forced.append(nxt.idx)
        return nxt

    def _handoff(self, t: Task, finished=False):
        cands = [c for c in self._runnable() if c is not t]
        if not cands:
            if any(x.state == "blocked" for x in self.tasks):
                self.deadlock = [(x.idx, getattr(x.blocked_on, "name", "?")) for x in self.tasks if x.state == "blocked"]
                self.log.ev("deadlock", self.deadlock)
            self.current = None
            self.main_gate.release()
            return
        nxt = self._pick_forced(cands)
        self.log.ev("handoff", t.idx, nxt.idx, self.step)
        self.current = nxt
        nxt.gate.release()

    def switch_to(self, t: Task, nxt: Task):
        self.current = nxt
        nxt.gate.release()
        t.gate.acquire()

    # ---------------------------------------------------------------- pre-emption
    def point(self, kind: str):
        """called from monitoring callbacks in the context of the running thread"""
        t = self.by_ident.get(_thread.get_ident())
        if t is None or t is not self.current or t.nopreempt or not self.active:
            return
        self.step += 1
        t.steps += 1
        if self.step > self.max_steps:
            self.overrun = True
            return
        if self.force:
            self.force = False
            cands = self._runnable(exclude=t)
            if not cands:
                return
            nxt = cands[(self.step + t.idx) % len(cands)] if self.rng is None else cands[self.rng.randrange(len(cands))]
        elif self.replay is not None:
            to = self._sw.get(self.step)
            if to is None:
                return
            nxt = next((x for x in self.tasks if x.idx == to and x.state == "runnable" and x is not t), None)
            if nxt is None:
                return
        elif self.change_points:
            if self.step not in self.change_points:
                return
            cands = self._runnable(exclude=t)
            if not cands:
                return
            nxt = cands[self.rng.randrange(len(cands))]
        else:
            p = self.p_line if kind == "line" else self.p_call
            if self.rng.random() >= p:
                return
            cands = self._runnable(exclude=t)
            if not cands:
                return
            nxt = cands[self.rng.randrange(len(cands))]
        self.switches.append([self.step, nxt.idx])
        self.log.ev("switch", self.step, t.idx, nxt.idx, kind)
        self.switch_to(t, nxt)

    def block_on(self, t: Task, lock):
        t.state = "blocked"
        t.blocked_on = lock
        self.log.ev("block", t.idx, lock.name, self.step)
        cands = self._runnable()
        if not cands:
            self.deadlock = [(x.idx, getattr(x.blocked_on, "name", "?")) for x in self.tasks if x.state == "blocked"]
            self.log.ev("deadlock", self.deadlock)
            self.current = None
            self.main_gate.release()
            t.gate.acquire()  # parked forever (the child process exits)
            return
        nxt = self._pick_forced(cands)
        self.current = nxt
        nxt.gate.release()
        t.gate.acquire()

    # ---------------------------------------------------------------- run
    def run(self, stall_s: float = 60.0) -> str:
        for t in self.tasks:
            t.state = "runnable"
            th = threading.Thread(target=self._body, args=(t,), name=f"sim-task-{t.idx}", daemon=True)
            t.thread = th
            th.start()
            t.ident = th.ident
            self.by_ident[th.ident] = t
        self.active = True
        first = self._pick_forced(list(self.tasks))
        self.current = first
        self.log.ev("start", first.idx, len(self.tasks))
        first.gate.release()
        ok = self.main_gate.acquire(timeout=stall_s)
        self.active = False
        if not ok:
            return "stall"
        if self.deadlock:
            return "deadlock"
        for t in self.tasks:
            t.thread.join(timeout=5)
        return "done"

    def schedule(self) -> dict:
        return {"switches": self.switches, "forced": self.forced}


# -------------------------------------------------------------------------------------- simulated locks
class SimLock:
    """Drop-in for threading.Lock / RLock whose blocking is decided by the simulator for managed tasks."""

    def __init__(self, sched_ref, reentrant=False, name="lock"):
        self._sched_ref = sched_ref
        self.reentrant = reentrant
        self.name = name
        self.owner = None
        self.count = 0
        self.waiters: list[Task] = []

    def _me(self):
        s = self._sched_ref()
        if s is None or not s.active:
            return None, s
        return s.by_ident.get(_thread.get_ident()), s

    def acquire(self, blocking=True, timeout=-1):
        t, s = self._me()
        me = t if t is not None else ("unmanaged", _thread.get_ident())
        while True:
            if self.owner is None:
                self.owner, self.count = me, 1
                if s is not None and t is not None:
                    s.log.ev("lock-acq", t.idx, self.name)
                return True
            if self.reentrant and self.owner == me:
                self.count += 1
                return True
            if not blocking:
                return False
            if t is None:
                # unmanaged thread contending: cannot be simulated; behave like a (short) real wait
                time.sleep(0.001)
                continue
            self.waiters.append(t)
            s.block_on(t, self)

    def release(self):
        t, s = self._me()
        if self.owner is None:
            raise RuntimeError("release unlocked lock")
        self.count -= 1
        if self.count > 0:
            return
        self.owner = None
        for w in self.waiters:
            if w.state == "blocked":
                w.state = "runnable"
                w.blocked_on = None
        self.waiters.clear()
        if s is not None and t is not None:
            s.log.ev("lock-rel", t.idx, self.name)

    def locked(self):
        return self.owner is not None

    def __enter__(self):
        self.acquire()
        return self

    def __exit__(self, *a):
        self.release()

    # RLock internals used by threading.Condition
    def _is_owned(self):
        t, s = self._me()
        me = t if t is not None else ("unmanaged", _thread.get_ident())
        return self.owner == me


class ThreadingProxy(types.ModuleType):
    """Stands in for the name `threading` inside package modules: lock factories return SimLocks."""

    def __init__(self, sched_ref, registry):
        super().__init__("threading")
        self.__dict__.update({k: v for k, v in vars(threading).items() if not k.startswith("__")})
        n = [0]

        def mk(reentrant):
            def factory(*a, **k):
                n[0] += 1
                lk = SimLock(sched_ref, reentrant, name=f"dyn{n[0]}")
                registry.append(lk)
                return lk
            return factory

        self.Lock = mk(False)
        self.RLock = mk(True)


LOCK_TYPES = (type(_thread.allocate_lock()), type(threading.RLock()))


def wrap_package_locks(sched_ref, pkg_prefix="sharepoint2text"):
    """Replace lock objects found in package module globals / class attributes, and the `threading` name."""
    found = []
    proxy = ThreadingProxy(sched_ref, found)
    for name, mod in list(sys.modules.items()):
        if mod is None or not name.startswith(pkg_prefix) or ".tests" in name:
            continue
        for k, v in list(vars(mod).items()):
            if isinstance(v, LOCK_TYPES):
                lk = SimLock(sched_ref, reentrant=isinstance(v, LOCK_TYPES[1]), name=f"{name.rsplit('.', 1)[-1]}.{k}")
                setattr(mod, k, lk)
                found.append(lk)
            elif v is threading:
                setattr(mod, k, proxy)
            elif v is threading.Lock or v is _thread.allocate_lock:
                setattr(mod, k, proxy.Lock)
            elif v is threading.RLock:
                setattr(mod, k, proxy.RLock)
            elif isinstance(v, type) and getattr(v, "__module__", "") == name:
                for ck, cv in list(vars(v).items()):
                    if isinstance(cv, LOCK_TYPES):
                        lk = SimLock(sched_ref, reentrant=isinstance(cv, LOCK_TYPES[1]), name=f"{v.__name__}.{ck}")
                        try:
                            setattr(v, ck, lk)
                            found.append(lk)
                        except Exception:
                            pass
    return found


# -------------------------------------------------------------------------------------- instrumentation
def code_objects_of(mod) -> list:
    out = []
    seen = set()

    def add_code(co):
        if id(co) in seen:
            return
        seen.add(id(co))
        out.append(co)
        for c in co.co_consts:
            if isinstance(c, types.CodeType):
                add_code(c)

    def add_fn(f):
        f = getattr(f, "__wrapped__", f)
        co = getattr(f, "__code__", None)
        if co is not None and co.co_filename == getattr(mod, "__file__", None):
            add_code(co)

    for v in list(vars(mod).values()):
        if isinstance(v, (types.FunctionType,)):
            add_fn(v)
        elif hasattr(v, "__wrapped__"):
            add_fn(v)
        elif isinstance(v, type) and getattr(v, "__module__", None) == mod.__name__:
            for cv in list(vars(v).values()):
                if isinstance(cv, (staticmethod, classmethod)):
                    cv = cv.__func__
                if isinstance(cv, property):
                    for f in (cv.fget, cv.fset):
                        if f is not None:
                            add_fn(f)
                elif isinstance(cv, types.FunctionType) or hasattr(cv, "__wrapped__"):
                    add_fn(cv)
    return out


class Instrument:
    def __init__(self, sched: Sched):
        self.sched = sched
        self.installed = []

    def install(self, call_codes: list, line_codes: list):
        mon = sys.monitoring
        try:
            mon.use_tool_id(TOOL, "s2tsim-sched")
        except ValueError:
            pass
        sched = self.sched
        E = mon.events

        def on_start(code, off):
            sched.point("call")

        def on_line(code, line):
            t = sched.by_ident.get(_thread.get_ident())
            if t is not None and sched.on_line is not None and sched.active:
                sched.on_line(t, code, line)
            sched.point("line")

        mon.register_callback(TOOL, E.PY_START, on_start)
        mon.register_callback(TOOL, E.LINE, on_line)
        lines = {id(c) for c in line_codes}
        for co in call_codes:
            ev = E.PY_START | (E.LINE if id(co) in lines else 0)
            mon.set_local_events(TOOL, co, ev)
            self.installed.append(co)
        for co in line_codes:
            if co not in self.installed:
                mon.set_local_events(TOOL, co, E.PY_START | E.LINE)
                self.installed.append(co)
        mon.restart_events()

    def install_global(self, filename_prefix: str, p_module_switch: float = 0.0):
        """pre-emption points also in code objects that do not exist yet (modules imported during the run): global PY_START events,
        switched off again (DISABLE) for every code location outside `filename_prefix`"""
        mon = sys.monitoring
        sched = self.sched
        E = mon.events

        def on_start(code, off):
            if not code.co_filename.startswith(filename_prefix):
                return mon.DISABLE
            if code.co_name == "<module>" and sched.replay is None and sched.rng is not None and sched.rng.random() < p_module_switch:
                sched.force = True  # a module body starts executing: the module is in sys.modules, half built -- the first-import window
            sched.point("call")

        mon.register_callback(TOOL, E.PY_START, on_start)
        mon.set_events(TOOL, E.PY_START)
        self._global = True

    def remove(self):
        mon = sys.monitoring
        if getattr(self, "_global", False):
            mon.set_events(TOOL, 0)
            self._global = False
        for co in self.installed:
            try:
                mon.set_local_events(TOOL, co, 0)
            except Exception:
                pass
        mon.register_callback(TOOL, mon.events.PY_START, None)
        mon.register_callback(TOOL, mon.events.LINE, None)
        self.installed = []


class CooperativeImportLocks:
    """importlib's per-module locks block in C; a managed task that would wait for a module another managed task is importing hands the
    CPU over instead (and tries again), so that first-import interleavings can be scheduled without stalling the simulator"""

    def __init__(self, sched: Sched):
        self.sched = sched
        self.real = None

    def __enter__(self):
        import importlib._bootstrap as B
        sched = self.sched
        self.real = real = B._ModuleLock.acquire

        def acquire(lock):
            t = sched.by_ident.get(_thread.get_ident())
            if t is not None and sched.active:
                spins = 0
                while lock.count and lock.owner != _thread.get_ident() and spins < 200000:
                    cands = sched._runnable(exclude=t)
                    if not cands:
                        break
                    spins += 1
                    if spins == 1:
                        sched.log.ev("import-wait", t.idx, lock.name)
                    holder = sched.by_ident.get(lock.owner)
                    # the task that is importing the module gets the CPU (handing it to another waiter would only ping-pong)
                    sched.switch_to(t, holder if holder in cands else cands[0])
            return real(lock)

        B._ModuleLock.acquire = acquire
        return self

    def __exit__(self, *exc):
        import importlib._bootstrap as B
        B._ModuleLock.acquire = self.real
        return False
