"""An independent 7z writer, written from the 7z format description (7zFormat.txt) for fssim.

Supports: coders Copy / LZMA / LZMA2 (via the stdlib lzma raw encoders); solid (one folder, many files), one folder per
file, or any grouping; empty files and directories (kEmptyStream / kEmptyFile); attributes; per-file CRCs; optional
LZMA-encoded header; files listed WITHOUT any data stream ("ghost" entries: more stream-bearing files than substreams);
the AES coder id for the "encrypted" shape.  It shares no code with sharepoint2text.parsing.extractors.util.sevenzip.
"""
from __future__ import annotations

import lzma
import struct
import zlib

MAGIC = b"7z\xbc\xaf\x27\x1c"
K_END, K_HEADER, K_MAIN_STREAMS, K_FILES_INFO, K_PACK_INFO, K_UNPACK_INFO, K_SUBSTREAMS = 0, 1, 4, 5, 6, 7, 8
K_SIZE, K_CRC, K_FOLDER, K_CODERS_UNPACK_SIZE, K_NUM_UNPACK_STREAM = 9, 0x0A, 0x0B, 0x0C, 0x0D
K_EMPTY_STREAM, K_EMPTY_FILE, K_NAME, K_WIN_ATTR, K_ENCODED_HEADER, K_DUMMY = 0x0E, 0x0F, 0x11, 0x15, 0x17, 0x19


def number(v: int) -> bytes:
    """7z variable-length UINT64: the count of leading 1-bits of the first byte = number of extra (little-endian) bytes;
    the remaining low bits of the first byte hold the high bits of the value."""
    for i in range(8):
        if v < (1 << (8 * i + (7 - i))):
            first = ((0xFF << (8 - i)) & 0xFF) | (v >> (8 * i))
            return bytes([first]) + (v & ((1 << (8 * i)) - 1)).to_bytes(i, "little")
    return b"\xff" + v.to_bytes(8, "little")


def bitvector(bits: list[bool]) -> bytes:
    out = bytearray()
    cur, mask = 0, 0x80
    for b in bits:
        if b:
            cur |= mask
        mask >>= 1
        if mask == 0:
            out.append(cur)
            cur, mask = 0, 0x80
    if mask != 0x80:
        out.append(cur)
    return bytes(out)


LZMA_DICT = 1 << 16
LZMA_PROPS = bytes([(2 * 5 + 0) * 9 + 3]) + struct.pack("<I", LZMA_DICT)  # pb=2 lp=0 lc=3


def encode(method: str, data: bytes) -> tuple[bytes, bytes, bytes | None]:
    """-> (coder id, packed bytes, coder properties)"""
    if method == "copy":
        return b"\x00", data, None
    if method == "lzma":
        f = [{"id": lzma.FILTER_LZMA1, "dict_size": LZMA_DICT, "lc": 3, "lp": 0, "pb": 2}]
        return b"\x03\x01\x01", lzma.compress(data, format=lzma.FORMAT_RAW, filters=f), LZMA_PROPS
    if method == "lzma2":
        f = [{"id": lzma.FILTER_LZMA2, "dict_size": LZMA_DICT}]
        return b"\x21", lzma.compress(data, format=lzma.FORMAT_RAW, filters=f), bytes([8])  # (2|0) << (8//2+11) = 64 KiB
    if method == "aes":
        # AES-256 + SHA-256 coder id with plausible properties; payload is opaque
        return b"\x06\xf1\x07\x01", data, bytes([0x13, 0x00]) + b"\x00" * 0
    raise ValueError(method)


def folder_record(coder_id: bytes, props: bytes | None) -> bytes:
    flags = len(coder_id) | (0x20 if props is not None else 0)
    out = number(1) + bytes([flags]) + coder_id
    if props is not None:
        out += number(len(props)) + props
    return out


def write_7z(entries: list[dict], *, layout="solid", method="lzma2", groups: list[list[int]] | None = None,
             encoded_header=False, with_crc=True, with_attrs=True, ghosts_tail: int = 0, dummy_pad=0) -> bytes:
    """entries: {'name': str, 'data': bytes|None (None = directory), 'attr': int?, 'ghost': bool?}

    layout: 'solid' | 'per_file' | 'groups' (groups = lists of indices into the stream-bearing files, in order).
    A 'ghost' entry is listed as a non-empty file but no folder/substream is written for it; ghosts must come after all
    real stream-bearing files (the format maps streams to files in order)."""
    files = []
    for e in entries:
        data = e.get("data")
        is_dir = data is None
        ghost = bool(e.get("ghost"))
        has_stream = (not is_dir) and (ghost or len(data) > 0)
        files.append({"name": e["name"], "data": data, "dir": is_dir, "stream": has_stream, "ghost": ghost,
                      "attr": e.get("attr", 0x10 if is_dir else 0x20), "method": e.get("method")})
    real = [i for i, f in enumerate(files) if f["stream"] and not f["ghost"]]
    if layout == "solid":
        grp = [real] if real else []
    elif layout == "per_file":
        grp = [[i] for i in real]
    else:
        grp = [[real[j] for j in g if j < len(real)] for g in (groups or [])]
        grp = [g for g in grp if g]
        covered = {i for g in grp for i in g}
        rest = [i for i in real if i not in covered]
        if rest:
            grp.append(rest)
    # the format assigns substreams to stream-bearing files in listing order: groups must follow file order
    flat = [i for g in grp for i in g]
    assert flat == sorted(flat), "groups must preserve listing order"

    packs, folders = [], []
    for g in grp:
        blob = b"".join(files[i]["data"] for i in g)
        m = files[g[0]].get("method") or method
        cid, packed, props = encode(m, blob)
        packs.append(packed)
        folders.append({"cid": cid, "props": props, "unpack": len(blob), "files": g, "crc": zlib.crc32(blob) & 0xFFFFFFFF})

    hdr = bytearray([K_HEADER])
    if folders:
        hdr += bytes([K_MAIN_STREAMS])
        hdr += bytes([K_PACK_INFO]) + number(0) + number(len(packs)) + bytes([K_SIZE]) + b"".join(number(len(p)) for p in packs) + bytes([K_END])
        hdr += bytes([K_UNPACK_INFO, K_FOLDER]) + number(len(folders)) + b"\x00"
        for f in folders:
            hdr += folder_record(f["cid"], f["props"])
        hdr += bytes([K_CODERS_UNPACK_SIZE]) + b"".join(number(f["unpack"]) for f in folders)
        hdr += bytes([K_END])
        # substreams
        hdr += bytes([K_SUBSTREAMS])
        if any(len(f["files"]) != 1 for f in folders):
            hdr += bytes([K_NUM_UNPACK_STREAM]) + b"".join(number(len(f["files"])) for f in folders)
        if any(len(f["files"]) > 1 for f in folders):
            hdr += bytes([K_SIZE])
            for f in folders:
                for i in f["files"][:-1]:
                    hdr += number(len(files[i]["data"]))
        if with_crc:
            crcs = [zlib.crc32(files[i]["data"]) & 0xFFFFFFFF for f in folders for i in f["files"]]
            hdr += bytes([K_CRC, 1]) + b"".join(struct.pack("<I", c) for c in crcs)
        hdr += bytes([K_END])
        hdr += bytes([K_END])
    # files info
    n = len(files)
    hdr += bytes([K_FILES_INFO]) + number(n)
    empty = [not f["stream"] for f in files]
    if any(empty):
        bv = bitvector(empty)
        hdr += bytes([K_EMPTY_STREAM]) + number(len(bv)) + bv
        ef = [not f["dir"] for f in files if not f["stream"]]
        if any(ef):
            bv2 = bitvector(ef)
            hdr += bytes([K_EMPTY_FILE]) + number(len(bv2)) + bv2
    names = b"".join(f["name"].encode("utf-16-le", "surrogatepass") + b"\x00\x00" for f in files)
    if dummy_pad:
        hdr += bytes([K_DUMMY]) + number(dummy_pad) + b"\x00" * dummy_pad
    hdr += bytes([K_NAME]) + number(len(names) + 1) + b"\x00" + names
    if with_attrs:
        attrs = b"".join(struct.pack("<I", f["attr"] & 0xFFFFFFFF) for f in files)
        hdr += bytes([K_WIN_ATTR]) + number(len(attrs) + 2) + b"\x01\x00" + attrs
    hdr += bytes([K_END])
    hdr += bytes([K_END])
    hdr = bytes(hdr)

    body = b"".join(packs)
    if encoded_header:
        cid, packed, props = encode("lzma", hdr)
        eh = bytearray([K_ENCODED_HEADER])
        eh += bytes([K_PACK_INFO]) + number(len(body)) + number(1) + bytes([K_SIZE]) + number(len(packed)) + bytes([K_END])
        eh += bytes([K_UNPACK_INFO, K_FOLDER]) + number(1) + b"\x00" + folder_record(cid, props)
        eh += bytes([K_CODERS_UNPACK_SIZE]) + number(len(hdr))
        eh += bytes([K_CRC, 1]) + struct.pack("<I", zlib.crc32(hdr) & 0xFFFFFFFF)
        eh += bytes([K_END])
        eh += bytes([K_END])
        body += packed
        end_header = bytes(eh)
    else:
        end_header = hdr
    start = struct.pack("<QQI", len(body), len(end_header), zlib.crc32(end_header) & 0xFFFFFFFF)
    sig = MAGIC + b"\x00\x04" + struct.pack("<I", zlib.crc32(start) & 0xFFFFFFFF) + start
    return sig + body + end_header
