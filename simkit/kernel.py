"""Simulation kernel shared by all engines (DESIGN.md section 1).

One integer (VERIF_SEED) decides everything; every run is a fork() of a warmed
zygote; outcome classes OK / VIOLATION / KNOWN / HARNESS_* are kept apart.
Nothing in this file reads a real clock for anything but budgets.
"""
from __future__ import annotations

import base64
import faulthandler
import gc
import hashlib
import json
import os
import random
import re
import select
import shutil
import signal
import subprocess
import sys
import tempfile
import time
import traceback

VERIF = os.path.dirname(os.path.dirname(os.path.abspath(__file__)))
REPO = os.environ.get("VERIF_REPO", "/repo")
PKG = os.path.join(REPO, "sharepoint2text")
FIXTURES = os.path.join(PKG, "tests", "resources")
NPROC = int(os.environ.get("VERIF_WORKERS", "0") or 0) or (os.cpu_count() or 4)


# --------------------------------------------------------------------------- seeds
def h64(*parts) -> int:
    s = "|".join(str(p) for p in parts).encode()
    return int.from_bytes(hashlib.sha256(s).digest()[:8], "big")


def run_seed(seed: int, engine: str, i: int) -> int:
    return h64("s2t-sim", seed, engine, i)


class EventLog:
    """Ordered log of seam events; only its digest and head travel to the parent."""

    def __init__(self, keep: int = 60):
        self._h = hashlib.sha256()
        self.n = 0
        self.head: list[str] = []
        self._keep = keep

    def ev(self, *parts) -> None:
        s = repr(parts)
        self._h.update(s.encode("utf-8", "backslashreplace"))
        self._h.update(b"\n")
        self.n += 1
        if len(self.head) < self._keep:
            self.head.append(s if len(s) < 300 else s[:300] + "...")

    def digest(self) -> str:
        return self._h.hexdigest()[:32]


# --------------------------------------------------------------------------- pinned process image
PIN_ENV = {
    "PYTHONHASHSEED": os.environ.get("VERIF_HASHSEED", "0"),
    "TZ": "UTC",
    "LC_ALL": "C.UTF-8",
    "LANG": "C.UTF-8",
    "PYTHONPYCACHEPREFIX": os.path.join(VERIF, "work", "pycache"),
    "PYTHONWARNINGS": "ignore",
    "PYTHONIOENCODING": "utf-8",
}


def reexec_pinned(argv: list[str]) -> None:
    """Re-execute once so that hash seed, TZ, locale and import path are fixed."""
    if os.environ.get("S2TSIM_PINNED") == "1":
        return
    env = dict(os.environ)
    env.update(PIN_ENV)
    env["S2TSIM_PINNED"] = "1"
    env["PYTHONPATH"] = REPO + os.pathsep + VERIF
    os.makedirs(os.path.join(VERIF, "work"), exist_ok=True)
    os.execve(sys.executable, [sys.executable] + argv, env)


def assert_repo_tree() -> None:
    import sharepoint2text

    f = os.path.realpath(sharepoint2text.__file__)
    if not f.startswith(os.path.realpath(REPO) + os.sep):
        raise SystemExit(f"HARNESS_ERROR: sharepoint2text imported from {f}, expected under {REPO}")


_STARTUP_WARNING_FILTERS: list = []


def quiet_process() -> None:
    import logging
    import warnings

    if not _STARTUP_WARNING_FILTERS:
        _STARTUP_WARNING_FILTERS.extend(warnings.filters)  # what a freshly started interpreter filters (see fresh_process_diagnostics)
    logging.disable(logging.CRITICAL)
    warnings.simplefilter("ignore")
    gc.disable()


class WarmupBudgetExceeded(BaseException):
    """raised by cpu_guard inside the guarded block (BaseException: the code under test catches Exception freely)"""


class cpu_guard:
    """Context: the block gets `seconds` of CPU time of this thread/process (ITIMER_VIRTUAL); then WarmupBudgetExceeded is raised in it.
    Warm-up extractions run in the parent without the per-run budgets: a change to the code under test that loops on a seed
    document must not hang the check itself."""

    def __init__(self, seconds: float):
        self.seconds = seconds

    def __enter__(self):
        import signal

        def on_alarm(signum, frame):
            raise WarmupBudgetExceeded()

        self._old = signal.signal(signal.SIGVTALRM, on_alarm)
        signal.setitimer(signal.ITIMER_VIRTUAL, self.seconds)
        return self

    def __exit__(self, et, ev, tb):
        import signal
        signal.setitimer(signal.ITIMER_VIRTUAL, 0)
        signal.signal(signal.SIGVTALRM, self._old)
        return et is WarmupBudgetExceeded  # swallowed: the caller sees a skipped warm-up step


class fresh_process_diagnostics:
    """Context: logging and warnings behave as in a freshly started interpreter that configured neither (log records of level WARNING and
    above reach sys.stderr through logging.lastResort, warnings go through the start-up filters) -- the state a command-line run has."""

    def __enter__(self):
        import logging
        import warnings
        self._disable = logging.root.manager.disable
        logging.disable(logging.NOTSET)
        self._cw = warnings.catch_warnings()
        self._cw.__enter__()
        warnings.filters[:] = list(_STARTUP_WARNING_FILTERS)
        warnings._filters_mutated()
        return self

    def __exit__(self, *exc):
        import logging
        self._cw.__exit__(*exc)
        logging.disable(self._disable)
        return False


# --------------------------------------------------------------------------- fork pool
class Job:
    __slots__ = ("tag", "payload", "pid", "fd", "buf", "t0", "stackfile", "timeout")


CHILD_STACK_FILE = None


def _child(fn, payload, wfd: int, stackfile: str, timeout: float):
    global CHILD_STACK_FILE
    code = 0
    try:
        try:
            sf = open(stackfile, "w")
            CHILD_STACK_FILE = sf
            faulthandler.enable(file=sf)
            if timeout and timeout > 2:
                faulthandler.dump_traceback_later(max(1.0, timeout - 1.0), file=sf, exit=False)
        except Exception:
            sf = None
        try:
            rec = fn(payload)
        except BaseException as exc:  # harness error inside the child
            rec = {"_harness": "child_exception", "error": repr(exc), "tb": traceback.format_exc()[-4000:]}
        data = json.dumps(rec, default=_json_default).encode("utf-8", "backslashreplace")
        view = memoryview(data)
        while view:
            n = os.write(wfd, view[: 1 << 16])
            view = view[n:]
    except BaseException as exc:
        code = 3
        try:  # say why (a record that cannot be serialised is a harness bug, not a library result)
            os.write(wfd, json.dumps({"_harness": "child_exception", "error": "while returning the record: " + repr(exc)[:500]}).encode())
            code = 0
        except BaseException:
            pass
    finally:
        try:
            faulthandler.cancel_dump_traceback_later()
        except Exception:
            pass
        os._exit(code)


def _json_default(o):
    if isinstance(o, (bytes, bytearray)):
        return {"_b64": base64.b64encode(bytes(o)).decode()}
    if isinstance(o, (set, frozenset)):
        return sorted(o, key=repr)
    return repr(o)


def run_forked(jobs, fn, *, workers: int = NPROC, run_timeout: float = 60.0, deadline: float | None = None,
               stackdir: str | None = None):
    """Run fn(payload) for every (tag, payload) of *jobs* in forked children.

    Yields (tag, payload, record).  A child that had to be killed or died yields a
    record with key '_harness' ('timeout' / 'crash') and never counts as a pass.
    Stops pulling new jobs once *deadline* (time.time()) has passed.
    """
    jobs = iter(jobs)
    live: dict[int, Job] = {}
    exhausted = False
    own_stackdir = None
    if stackdir is None:
        own_stackdir = stackdir = tempfile.mkdtemp(prefix="s2tsim-stk-")
    seq = 0
    try:
        while True:
            while not exhausted and len(live) < workers:
                if deadline is not None and time.time() > deadline:
                    exhausted = True
                    break
                try:
                    item = next(jobs)
                except StopIteration:
                    exhausted = True
                    break
                tag, payload = item[0], item[1]
                tmo = item[2] if len(item) > 2 else run_timeout
                r, w = os.pipe()
                seq += 1
                stackfile = os.path.join(stackdir, f"{seq}.txt")
                sys.stdout.flush()
                sys.stderr.flush()
                pid = os.fork()
                if pid == 0:
                    os.close(r)
                    for j in live.values():
                        try:
                            os.close(j.fd)
                        except OSError:
                            pass
                    _child(fn, payload, w, stackfile, tmo)
                os.close(w)
                j = Job()
                j.tag, j.payload, j.pid, j.fd, j.buf, j.t0, j.stackfile, j.timeout = (
                    tag, payload, pid, r, bytearray(), time.time(), stackfile, tmo)
                live[r] = j
            if not live:
                if exhausted:
                    return
                continue
            ready, _, _ = select.select(list(live), [], [], 0.2)
            done: list[Job] = []
            for fd in ready:
                j = live[fd]
                try:
                    chunk = os.read(fd, 1 << 16)
                except OSError:
                    chunk = b""
                if chunk:
                    j.buf += chunk
                else:
                    done.append(j)
            now = time.time()
            for j in list(live.values()):
                if j not in done and now - j.t0 > j.timeout:
                    try:
                        os.kill(j.pid, signal.SIGKILL)
                    except OSError:
                        pass
                    _, st = os.waitpid(j.pid, 0)
                    os.close(j.fd)
                    del live[j.fd]
                    stack = _read_stack(j.stackfile)
                    yield j.tag, j.payload, {"_harness": "timeout", "wall": now - j.t0, "stack": stack}
            for j in done:
                _, st = os.waitpid(j.pid, 0)
                os.close(j.fd)
                del live[j.fd]
                rec = None
                if j.buf:
                    try:
                        rec = json.loads(j.buf.decode("utf-8", "replace"))
                    except Exception:
                        rec = None
                if rec is None:
                    rec = {"_harness": "crash", "status": st, "signal": st & 0x7F,
                           "stack": _read_stack(j.stackfile), "wall": time.time() - j.t0}
                else:
                    rec.setdefault("wall", time.time() - j.t0)
                try:
                    os.unlink(j.stackfile)
                except OSError:
                    pass
                yield j.tag, j.payload, rec
    finally:
        for j in live.values():
            try:
                os.kill(j.pid, signal.SIGKILL)
                os.waitpid(j.pid, 0)
                os.close(j.fd)
            except OSError:
                pass
        if own_stackdir:
            shutil.rmtree(own_stackdir, ignore_errors=True)


def _read_stack(path: str) -> str:
    try:
        with open(path) as f:
            s = f.read()
        os.unlink(path)
        return s[-6000:]
    except OSError:
        return ""


# --------------------------------------------------------------------------- function-set signature
class FuncSet:
    """Set of package functions entered during a run (sys.monitoring PY_START, one hit each)."""

    TOOL = 4

    def __init__(self, roots: tuple[str, ...]):
        self.roots = roots
        self.names: set[str] = set()
        self.active = False

    def start(self):
        mon = sys.monitoring
        try:
            mon.use_tool_id(self.TOOL, "s2tsim-funcset")
        except ValueError:
            pass
        roots = self.roots
        names = self.names
        DIS = mon.DISABLE

        def cb(code, off):
            fn = code.co_filename
            for r in roots:
                if fn.startswith(r):
                    names.add(fn[len(r):] + ":" + code.co_name)
                    break
            return DIS

        mon.register_callback(self.TOOL, mon.events.PY_START, cb)
        mon.set_events(self.TOOL, mon.events.PY_START)
        mon.restart_events()
        self.active = True

    def stop(self) -> str:
        if self.active:
            mon = sys.monitoring
            mon.set_events(self.TOOL, 0)
            mon.register_callback(self.TOOL, mon.events.PY_START, None)
            self.active = False
        return hashlib.sha1("\n".join(sorted(self.names)).encode()).hexdigest()[:12]


# --------------------------------------------------------------------------- known findings
class Known:
    def __init__(self, path: str | None = None):
        path = path or os.path.join(VERIF, "known_findings.json")
        try:
            self.entries = json.load(open(path))
        except FileNotFoundError:
            self.entries = []

    def match(self, prop: str, vclass: str, sig: str):
        for e in self.entries:
            if e.get("status") != "known" or e.get("property") != prop:
                continue
            m = e.get("match", {})
            if m.get("class") not in (None, vclass):
                continue
            if "sig" in m and m["sig"] != sig:
                continue
            if "sig_re" in m and not re.search(m["sig_re"], sig):
                continue
            return e
        return None


# --------------------------------------------------------------------------- sandbox dir
_SANDBOX = None


def sandbox_root() -> str:
    """A fresh private directory for this check invocation (removed at exit by the driver)."""
    global _SANDBOX
    if _SANDBOX is None:
        base = os.environ.get("VERIF_SCRATCH") or tempfile.gettempdir()
        _SANDBOX = tempfile.mkdtemp(prefix="s2tsim-", dir=base)
    return _SANDBOX


def cleanup_sandbox() -> None:
    global _SANDBOX
    if _SANDBOX and os.path.isdir(_SANDBOX):
        shutil.rmtree(_SANDBOX, ignore_errors=True)
    _SANDBOX = None


def jdump(o) -> str:
    return json.dumps(o, sort_keys=True, default=_json_default, ensure_ascii=True)


def b64e(b: bytes) -> str:
    return base64.b64encode(b).decode()


def b64d(s: str) -> bytes:
    return base64.b64decode(s)
