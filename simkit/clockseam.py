"""Seam S5: every binding of datetime / date / time in the library and its parsers is replaced by a simulated clock."""
from __future__ import annotations

import datetime as _dt
import sys
import time as _time
import types

PREFIXES = ("sharepoint2text", "openpyxl", "pypdf", "xlrd", "olefile", "mailparser", "msg_parser", "defusedxml", "charset_normalizer",
            "et_xmlfile")


class Clock:
    def __init__(self, base: float, step: float):
        self.t = float(base)
        self.step = float(step)
        self.reads = 0

    def now(self) -> float:
        self.reads += 1
        self.t += self.step
        return self.t


def install(base: float, step: float) -> Clock:
    clock = Clock(base, step)
    real_dt, real_date = _dt.datetime, _dt.date

    class _MetaDT(type(real_dt)):
        def __instancecheck__(cls, obj):
            return isinstance(obj, real_dt)

        def __subclasscheck__(cls, sub):
            return issubclass(sub, real_dt)

    class SimDateTime(real_dt, metaclass=_MetaDT):
        @classmethod
        def now(cls, tz=None):
            return real_dt.fromtimestamp(clock.now(), tz)

        @classmethod
        def utcnow(cls):
            return real_dt.utcfromtimestamp(clock.now())

        @classmethod
        def today(cls):
            return real_dt.fromtimestamp(clock.now())

    class _MetaD(type(real_date)):
        def __instancecheck__(cls, obj):
            return isinstance(obj, real_date)

        def __subclasscheck__(cls, sub):
            return issubclass(sub, real_date)

    class SimDate(real_date, metaclass=_MetaD):
        @classmethod
        def today(cls):
            return real_dt.fromtimestamp(clock.now()).date()

    dt_proxy = types.ModuleType("datetime")
    dt_proxy.__dict__.update({k: v for k, v in vars(_dt).items() if not k.startswith("__")})
    dt_proxy.datetime = SimDateTime
    dt_proxy.date = SimDate
    time_proxy = types.ModuleType("time")
    time_proxy.__dict__.update({k: v for k, v in vars(_time).items() if not k.startswith("__")})
    time_proxy.time = lambda: clock.now()
    time_proxy.time_ns = lambda: int(clock.now() * 1e9)
    time_proxy.localtime = lambda s=None: _time.localtime(clock.now() if s is None else s)
    time_proxy.gmtime = lambda s=None: _time.gmtime(clock.now() if s is None else s)

    clock.patched = 0

    def repatch():
        _patch(clock, real_dt, real_date, SimDateTime, SimDate, dt_proxy, time_proxy)

    clock.repatch = repatch
    repatch()
    return clock


def _patch(clock, real_dt, real_date, SimDateTime, SimDate, dt_proxy, time_proxy):
    patched = 0
    for name, mod in list(sys.modules.items()):
        if mod is None or not name.startswith(PREFIXES):
            continue
        try:
            items = list(vars(mod).items())
        except Exception:
            continue
        for k, v in items:
            try:
                if v is real_dt:
                    setattr(mod, k, SimDateTime); patched += 1
                elif v is real_date:
                    setattr(mod, k, SimDate); patched += 1
                elif v is _dt:
                    setattr(mod, k, dt_proxy); patched += 1
                elif v is _time:
                    setattr(mod, k, time_proxy); patched += 1
                elif v is _time.time:
                    setattr(mod, k, time_proxy.time); patched += 1
            except Exception:
                pass
    clock.patched += patched
