"""Reference archive writers for fssim: zipfile, tarfile and the independent 7z writer, from explicit JSON specs."""
from __future__ import annotations

import io
import tarfile
import zipfile

from . import corpus
from .sevenz_writer import write_7z

TEXT_KINDS = ["txt", "csv", "html", "md", "json", "tsv", "htm", "TXT", "Csv"]
BAD_KINDS = ["exe", "bin", "png", "", "zip", "tar.gz", "7z", "tgz"]  # unsupported types and nested archives


def nested_archive(name: str, token: str) -> bytes:
    """a real archive of the kind the member's extension announces, holding one text file with the token"""
    inner = [("inner.txt", f"nested {token}\n".encode())]
    n = name.lower()
    if n.endswith(".zip"):
        return corpus._zip(inner)
    if n.endswith(".7z"):
        return write_7z([{"name": "inner.txt", "data": inner[0][1]}], method="copy")
    if n.endswith((".tar.gz", ".tgz", ".gz", ".taz", ".tz")):
        return corpus._tar(inner, "w:gz")
    if n.endswith((".tar.bz2", ".tbz2", ".bz2", ".tbz", ".tb2")):
        return corpus._tar(inner, "w:bz2")
    if n.endswith((".tar.xz", ".txz", ".xz")):
        return corpus._tar(inner, "w:xz")
    return corpus._tar(inner)


def mini_doc(kind: str, token: str, pad: int = 0) -> bytes:
    if kind.startswith("nested:"):
        return nested_archive(kind[7:], token)
    k = kind.lower()
    filler = ("lorem " * (pad // 6 + 1))[:pad]
    if k in ("txt", "md", "bin", "exe", "png", ""):
        return f"member {token} text\n{filler}".encode()
    if k in ("csv",):
        return f"k,v\n{token},1\n{filler}".encode()
    if k == "tsv":
        return f"k\tv\n{token}\t1\n{filler}".encode()
    if k == "json":
        return ('{"token": "%s", "pad": "%s"}' % (token, filler)).encode()
    if k in ("html", "htm"):
        return f"<html><head><title>t</title></head><body><p>{token}</p><p>{filler}</p></body></html>".encode()
    if k == "docx":
        body = f'<w:p><w:r><w:t>{token}</w:t></w:r></w:p><w:p><w:r><w:t>{filler}</w:t></w:r></w:p>'
        doc = f'<?xml version="1.0" encoding="UTF-8"?><w:document {corpus.W}><w:body>{body}<w:sectPr/></w:body></w:document>'
        return corpus._zip([("[Content_Types].xml", corpus.CT.encode()), ("_rels/.rels", corpus.RELS.encode()),
                            ("word/document.xml", doc.encode()), ("docProps/core.xml", corpus.CORE.encode())])
    if k == "rtf":
        return (r"{\rtf1\ansi\pard " + token + " " + filler + r"\par}").encode()
    if k == "eml":
        return (f"From: a@example.org\nTo: b@example.org\nSubject: {token}\nDate: Tue, 02 Jan 2024 03:04:05 +0000\n"
                f"Message-ID: <{token}@example.org>\n\nbody {token}\n{filler}\n").encode()
    if k in ("zip", "tgz", "tar.gz", "7z"):
        return corpus._zip([("inner.txt", f"nested {token}\n".encode())])
    return f"member {token}\n{filler}".encode()


def member_bytes(m: dict) -> bytes:
    if "raw_b64" in m:
        from .kernel import b64d
        return b64d(m["raw_b64"])
    if m.get("kind", "file") in ("dir", "symlink", "hardlink", "chr", "blk", "fifo"):
        return b""
    if m.get("empty"):
        return b""
    return mini_doc(m.get("doc", "txt"), m.get("token", "TOK"), m.get("pad", 0))


def build(spec: dict) -> bytes:
    fmt = spec["fmt"]
    ms = spec["members"]
    if fmt == "zip":
        bio = io.BytesIO()
        method = zipfile.ZIP_STORED if spec.get("zip_method") == "stored" else zipfile.ZIP_DEFLATED
        with zipfile.ZipFile(bio, "w", method) as z:
            for m in ms:
                kind = m.get("kind", "file")
                if kind == "ghost":
                    continue
                name = m["name"]
                if kind == "dir":
                    zi = zipfile.ZipInfo(name.rstrip("/") + "/", date_time=(2024, 1, 2, 3, 4, 6))
                    zi.external_attr = 0o40755 << 16 | 0x10
                    z.writestr(zi, b"")
                    continue
                if kind != "file":
                    continue
                zi = zipfile.ZipInfo(name, date_time=(2024, 1, 2, 3, 4, 6))
                zi.compress_type = method
                if m.get("encflag"):
                    zi.flag_bits |= 0x1
                z.writestr(zi, member_bytes(m))
        data = bio.getvalue()
        if any(m.get("encflag") for m in ms):
            data = _set_zip_enc_flags(data, [m["name"] for m in ms if m.get("encflag")])
        return data
    if fmt.startswith("tar"):
        mode = {"tar": "w", "tar.gz": "w:gz", "tar.bz2": "w:bz2", "tar.xz": "w:xz"}[fmt]
        if fmt == "tar.gz":  # gzip with a fixed mtime so that archive bytes are a function of the spec
            import gzip
            raw = io.BytesIO()
            _write_tar(raw, "w", ms, spec.get("tar_format", "pax"))
            out = io.BytesIO()
            with gzip.GzipFile(fileobj=out, mode="wb", mtime=0) as g:
                g.write(raw.getvalue())
            return out.getvalue()
        bio = io.BytesIO()
        _write_tar(bio, mode, ms, spec.get("tar_format", "pax"))
        return bio.getvalue()
    if fmt == "7z":
        o = spec.get("7z", {})
        entries = []
        for m in ms:
            kind = m.get("kind", "file")
            if kind == "dir":
                entries.append({"name": m["name"], "data": None})
            elif kind == "ghost":
                entries.append({"name": m["name"], "data": b"", "ghost": True})
            elif kind == "file":
                entries.append({"name": m["name"], "data": member_bytes(m), "attr": m.get("attr", 0x20), "method": m.get("method")})
        if not entries and o.get("empty_standard"):
            # what 7-Zip itself writes for an archive without entries: the 32-byte signature header alone, next header of size 0
            import struct
            import zlib
            tail = struct.pack("<QQI", 0, 0, 0)
            return b"7z\xbc\xaf\x27\x1c" + bytes([0, 4]) + struct.pack("<I", zlib.crc32(tail) & 0xFFFFFFFF) + tail
        # ghosts must follow every real stream-bearing file
        real = [e for e in entries if not e.get("ghost")]
        ghosts = [e for e in entries if e.get("ghost")]
        return write_7z(real + ghosts, layout=o.get("layout", "solid"), method=o.get("method", "lzma2"), groups=o.get("groups"),
                        encoded_header=o.get("encoded_header", False), with_crc=o.get("crc", True), with_attrs=o.get("attrs", True))
    raise ValueError(fmt)


TAR_FORMATS = {"pax": tarfile.PAX_FORMAT, "gnu": tarfile.GNU_FORMAT, "ustar": tarfile.USTAR_FORMAT}


def _write_tar(fileobj, mode, ms, tar_format="pax"):
    with tarfile.open(fileobj=fileobj, mode=mode, format=TAR_FORMATS[tar_format]) as t:
        for m in ms:
            kind = m.get("kind", "file")
            if kind == "ghost":
                continue
            ti = tarfile.TarInfo(m["name"])
            ti.mtime = 1700000000
            if kind == "dir":
                ti.type = tarfile.DIRTYPE
                ti.mode = 0o755
                t.addfile(ti)
            elif kind == "symlink":
                ti.type = tarfile.SYMTYPE
                ti.linkname = m.get("link", "")
                t.addfile(ti)
            elif kind == "hardlink":
                ti.type = tarfile.LNKTYPE
                ti.linkname = m.get("link", "")
                t.addfile(ti)
            elif kind in ("chr", "blk"):
                ti.type = tarfile.CHRTYPE if kind == "chr" else tarfile.BLKTYPE
                ti.devmajor, ti.devminor = 1, 3
                t.addfile(ti)
            elif kind == "fifo":
                ti.type = tarfile.FIFOTYPE
                t.addfile(ti)
            else:
                data = member_bytes(m)
                ti.size = len(data)
                t.addfile(ti, io.BytesIO(data))


def _set_zip_enc_flags(data: bytes, names: list[str]) -> bytes:
    """set general-purpose flag bit 0 in local and central headers of the named members"""
    b = bytearray(data)
    for sig, flag_off, name_len_off, hdr in ((b"PK\x03\x04", 6, 26, 30), (b"PK\x01\x02", 8, 28, 46)):
        i = 0
        while True:
            i = data.find(sig, i)
            if i < 0:
                break
            nl = int.from_bytes(data[i + name_len_off:i + name_len_off + 2], "little")
            nm = data[i + hdr:i + hdr + nl].decode("utf-8", "replace")
            if nm in names:
                b[i + flag_off] |= 1
            i += 4
    return bytes(b)


def ext_of(fmt: str) -> str:
    return {"zip": ".zip", "tar": ".tar", "tar.gz": ".tar.gz", "tar.bz2": ".tar.bz2", "tar.xz": ".tar.xz", "7z": ".7z"}[fmt]
