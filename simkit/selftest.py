"""./check selftest [--prop Cxx] : determinism of the simulation itself (DESIGN.md section 7).

For every engine: N seeds x 2 executions in separate forks, at two worker counts, and once more in a fresh
interpreter started under another PYTHONHASHSEED; all event-log digests must agree pairwise.
"""
from __future__ import annotations

import json
import os
import random
import subprocess
import sys
import time

from . import kernel as K


def digests(mod, tier, seed, n, workers):
    from .driver import Runner
    r = Runner(mod, tier, seed, 0, workers)
    jobs = [(i, {"seed": K.run_seed(seed, mod.ENGINE + ":" + mod.ID, i)}) for i in range(n)]
    out = {}
    for tag, _p, rec in K.run_forked(jobs, r.child, workers=workers, run_timeout=getattr(mod, "RUN_TIMEOUT", 60)):
        out[tag] = rec.get("digest") if "_harness" not in rec else "HARNESS:" + rec["_harness"]
    return out


def main(args) -> int:
    """every configuration runs in its own fresh interpreter, so that no property's warm-up shapes another one's zygote"""
    from .driver import CLAIMED, load, MAIN
    props = [p for p in os.environ.get("VERIF_SELFTEST_PROPS", ",".join(CLAIMED)).split(",") if p]
    n = int(os.environ.get("VERIF_SELFTEST_N", "40"))
    if os.environ.get("S2TSIM_SELFTEST_SUB") == "1":
        K.assert_repo_tree()
        K.quiet_process()
        mod = load(props[0])
        mod.warm()
        res = digests(mod, "quick", args.seed, n, int(os.environ.get("S2TSIM_SELFTEST_WORKERS", str(K.NPROC))))
        K.cleanup_sandbox()
        print(json.dumps({props[0]: res}))
        return 0
    bad = 0
    for p in props:
        try:
            load(p)
        except ModuleNotFoundError:
            continue
        t0 = time.time()
        cols = []
        for hs, workers in (("0", K.NPROC), ("0", 3), ("4242", K.NPROC)):
            env = {k: v for k, v in os.environ.items() if k != "S2TSIM_PINNED"}
            env.update({"VERIF_HASHSEED": hs, "S2TSIM_SELFTEST_SUB": "1", "VERIF_SELFTEST_PROPS": p, "VERIF_SELFTEST_N": str(n),
                        "S2TSIM_SELFTEST_WORKERS": str(workers)})
            out = subprocess.run([sys.executable, MAIN, "selftest", "--seed", str(args.seed)], env=env, capture_output=True, text=True)
            try:
                cols.append({int(k): v for k, v in json.loads(out.stdout.strip().splitlines()[-1])[p].items()})
            except Exception:
                print(f"[selftest] {p}: configuration hashseed={hs} workers={workers} failed: {out.stderr[-800:]}")
                cols.append({})
        a, b, c = cols
        mm = [i for i in range(n) if not (a.get(i) is not None and a.get(i) == b.get(i) == c.get(i)) or str(a.get(i)).startswith("HARNESS")]
        print(f"[selftest] {p}: {n} seeds x 3 fresh interpreters ({K.NPROC} workers / 3 workers / PYTHONHASHSEED=4242): "
              f"{len(mm)} mismatches {mm[:8]} ({time.time() - t0:.1f}s)")
        for i in mm[:3]:
            print("   ", i, a.get(i), b.get(i), c.get(i))
        bad += len(mm)
    return 1 if bad else 0
