"""./check selftest [--prop Cxx] : determinism of the simulation itself (DESIGN.md section 7).

For every engine: N seeds x 2 executions in separate forks, at two worker counts, and once more in a fresh
interpreter started under another PYTHONHASHSEED; all event-log digests must agree pairwise.
"""
from __future__ import annotations

import json
import os
import random
import subprocess
import sys
import time

from . import kernel as K


def digests(mod, tier, seed, n, workers):
    from .driver import Runner
    r = Runner(mod, tier, seed, 0, workers)
    jobs = [(i, {"seed": K.run_seed(seed, mod.ENGINE + ":" + mod.ID, i)}) for i in range(n)]
    out = {}
    for tag, _p, rec in K.run_forked(jobs, r.child, workers=workers, run_timeout=getattr(mod, "RUN_TIMEOUT", 60)):
        out[tag] = rec.get("digest") if "_harness" not in rec else "HARNESS:" + rec["_harness"]
    return out


def main(args) -> int:
    from .driver import CLAIMED, load, MAIN
    props = [p for p in os.environ.get("VERIF_SELFTEST_PROPS", ",".join(CLAIMED)).split(",") if p]
    n = int(os.environ.get("VERIF_SELFTEST_N", "40"))
    sub = os.environ.get("S2TSIM_SELFTEST_SUB") == "1"
    K.assert_repo_tree()
    K.quiet_process()
    bad = 0
    result = {}
    for p in props:
        try:
            mod = load(p)
        except ModuleNotFoundError:
            continue
        mod.warm()
        t0 = time.time()
        a = digests(mod, "quick", args.seed, n, K.NPROC)
        if sub:
            result[p] = a
            continue
        b = digests(mod, "quick", args.seed, n, 3)
        env = {k: v for k, v in os.environ.items() if k != "S2TSIM_PINNED"}
        env.update({"VERIF_HASHSEED": "4242", "S2TSIM_SELFTEST_SUB": "1", "VERIF_SELFTEST_PROPS": p, "VERIF_SELFTEST_N": str(n)})
        out = subprocess.run([sys.executable, MAIN, "selftest", "--seed", str(args.seed)], env=env, capture_output=True, text=True)
        try:
            c = {int(k): v for k, v in json.loads(out.stdout.strip().splitlines()[-1])[p].items()}
        except Exception:
            print(f"[selftest] {p}: fresh-interpreter run failed: {out.stderr[-800:]}")
            bad += 1
            continue
        mm = [i for i in a if not (a[i] == b.get(i) == c.get(i)) or str(a[i]).startswith("HARNESS")]
        print(f"[selftest] {p}: {len(a)} seeds x 3 executions (16 workers, 3 workers, fresh interpreter PYTHONHASHSEED=4242): "
              f"{len(mm)} mismatches {mm[:8]} ({time.time() - t0:.1f}s)")
        for i in mm[:3]:
            print("   ", i, a[i], b.get(i), c.get(i))
        bad += len(mm)
    K.cleanup_sandbox()
    if sub:
        print(json.dumps(result))
        return 0
    return 1 if bad else 0
