"""schedsim cold-history worker: a fresh interpreter with lazy imports extracts a sequence of documents and reports, per document,
its result digest and a fingerprint of interpreter-global settings before/after."""
import base64
import hashlib
import io
import json
import os
import sys


CODEC_LABELS = ["iso-8859-8-i", "iso-8859-8-e", "windows-874", "windows-31j", "x-sjis", "x-gbk", "x-user-defined", "cp-850", "unicode-1-1-utf-7", "x-mac-roman",
                "8bit", "binary", "unknown-8bit", "x-unknown", "ansi_x3.110-1983", "utf8mb4", "cesu-8", "x-utf-16le-bom", "iso-2022-jp-ms", "x-euc-jp", "ms932",
                "windows-1252", "latin1", "utf-8"]


def env_fingerprint():
    import csv
    import decimal
    import locale
    import mimetypes
    import socket
    import warnings
    mt = mimetypes._db
    maps = None
    if mt is not None:
        maps = hashlib.sha1(repr((sorted(mt.types_map[0].items()), sorted(mt.types_map[1].items()), sorted(mt.suffix_map.items()),
                                  sorted(mt.encodings_map.items()))).encode()).hexdigest()[:12]
    ctx = decimal.getcontext()
    import codecs
    looked_up = {}
    for label in CODEC_LABELS:  # the codec registry cannot be listed; a fixed set of labels shows whether search functions were added
        try:
            looked_up[label] = codecs.lookup(label).name
        except LookupError:
            looked_up[label] = None
    return {"codec_registry_probe": hashlib.sha1(repr(sorted(looked_up.items())).encode()).hexdigest()[:12] + ":" + ",".join(k for k, v in sorted(looked_up.items()) if v),
            "recursionlimit": sys.getrecursionlimit(), "mimetypes_inited": mimetypes.inited, "mimetypes_maps": maps,
            "decimal": (ctx.prec, ctx.rounding), "locale": locale.setlocale(locale.LC_ALL), "csv_field_size_limit": csv.field_size_limit(),
            "socket_default_timeout": socket.getdefaulttimeout(), "warnings_filters": len(warnings.filters), "cwd": os.getcwd(),
            "sys_path_len": len(sys.path), "environ": hashlib.sha1(repr(sorted(os.environ.items())).encode()).hexdigest()[:12],
            "int_max_str_digits": sys.get_int_max_str_digits() if hasattr(sys, "get_int_max_str_digits") else None}


def main():
    spec = json.load(sys.stdin)
    # the result travels on a private copy of fd 1; whatever the code under test print()s goes to stderr instead
    result_out = os.fdopen(os.dup(1), "w")
    os.dup2(2, 1)
    sys.path.insert(0, spec["verif"])
    import logging
    import mimetypes
    import warnings
    logging.disable(logging.CRITICAL)
    warnings.simplefilter("ignore")
    mimetypes.init()
    from simkit import canon
    import sharepoint2text
    out = []
    fp0 = env_fingerprint()
    for d in spec["docs"]:
        data = base64.b64decode(d["b64"])
        try:
            rs = list(sharepoint2text.get_extractor(d["route"])(io.BytesIO(data), None))
            dig = "ok:" + canon.digest([r.to_json() for r in rs])
        except Exception as e:
            dig = "exc:" + type(e).__name__
        out.append({"name": d["name"], "digest": dig, "env": env_fingerprint()})
    json.dump({"env0": fp0, "docs": out}, result_out)
    result_out.flush()


if __name__ == "__main__":
    main()
