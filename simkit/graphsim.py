"""netsim: the far side of seam S4 -- an in-process Entra token endpoint + Graph API and an unreliable transport.

Everything here is a stub by design (server, socket); the client under test is the real
sharepoint2text.sharepoint_io.client.SharePointRestClient reached through its own request_func= seam.
"""
from __future__ import annotations

import io
import json
import http.client
from urllib.error import HTTPError, URLError
from urllib.parse import parse_qs, unquote, urlsplit

GRAPH = "https://graph.microsoft.com/v1.0"
LOGIN = "https://login.microsoftonline.com"

CORE_KINDS = [
    "http:400", "http:401", "http:403", "http:404", "http:429", "http:500", "http:503",
    "urlerror_str", "urlerror_os", "cut", "status:199", "status:300", "status:302", "status:500", "status:404",
    "nostatus:500", "nostatus:302", "http_bin:500", "http_bin:403", "status_bin:502",
]
EXT_KINDS = [
    "exc_send:TimeoutError", "exc_send:ConnectionResetError", "exc_read:IncompleteRead", "exc_read:TimeoutError",
    "exc_read:ConnectionResetError", "json_type:list", "json_type:null", "json_type:str", "json_type:num",
    "body_nonutf8",
]


class Resp:
    """A response object as urlopen would hand out; counts close() calls."""

    def __init__(self, sim, body: bytes, status: int = 200, has_status: bool | None = None, read_exc=None):
        if has_status is None:
            has_status = sim.has_status
        self._sim = sim
        self._body = body
        self._read_exc = read_exc
        self.closed_n = 0
        self.read_n = 0
        self._code = status
        if has_status:
            self.status = status
        sim.responses.append(self)

    def getcode(self):
        return self._code

    def read(self, *a):
        self.read_n += 1
        if self._read_exc is not None:
            raise self._read_exc
        return self._body

    def close(self):
        self.closed_n += 1

    def __enter__(self):
        return self

    def __exit__(self, *a):
        self.close()


class GraphSim:
    """Server state + transport.  library = {'site': {...}, 'drives': {name|'': root_children}}."""

    def __init__(self, lib: dict, log=None, has_status: bool = True):
        self.has_status = has_status
        self.lib = lib
        self.log = log
        self.tokens: set[str] = set()
        self.ntok = 0
        self.responses: list[Resp] = []
        self.nreq = 0
        self.nresp_pages = 0
        self.skip: dict[str, tuple] = {}
        self.fault: dict[int, str] = {}  # request index -> kind
        self.fired: list[tuple] = []
        self.reqlog: list[dict] = []
        self.pages = lib.get("pages") or [100]
        self._index()

    # -- indexing of the tree
    def _index(self):
        self.by_id = {}
        for dname, children in self.lib["drives"].items():
            def walk(items, parent):
                for it in items:
                    self.by_id[(dname, it["id"])] = it
                    if it["kind"] == "folder":
                        walk(it["children"], it)
            walk(children, None)

    def open_responses(self) -> int:
        return sum(1 for r in self.responses if r.closed_n == 0)

    # -- the transport the client sees
    def transport(self, request, timeout=None):
        k = self.nreq
        self.nreq += 1
        url = request.full_url
        method = request.get_method()
        rclass = self.classify(url, method)
        self.reqlog.append({"k": k, "class": rclass, "url": url})
        if self.log:
            self.log.ev("req", k, method, rclass, url)
        kind = self.fault.get(k)
        if kind is not None:
            self.fired.append((k, kind, rclass, url))
            if self.log:
                self.log.ev("fault", k, kind)
            if kind.startswith("http_bin:"):
                code = int(kind[9:])
                raise HTTPError(url, code, "injected", {}, io.BytesIO(b"\xff\xfe<html>\xe9rror \x80\x81</html>"))
            if kind.startswith("http:"):
                code = int(kind[5:])
                raise HTTPError(url, code, "injected", {}, io.BytesIO(b'{"error":{"code":"injected"}}'))
            if kind == "urlerror_str":
                raise URLError("injected: connection refused")
            if kind == "urlerror_os":
                raise URLError(OSError(111, "injected: connection refused"))
            if kind.startswith("exc_send:"):
                raise self._exc(kind[9:])
        try:
            status, body = self.handle(request, url, method)  # may raise HTTPError (genuine server answer)
        except HTTPError:
            if kind is not None:
                self.fired.pop()  # the server itself refused; a response-level fault had nothing to act on
            raise
        if kind is None:
            return Resp(self, body, status)
        if kind == "cut":
            cut = (k * 7919) % max(1, len(body))
            return Resp(self, body[:cut], status)
        if kind.startswith("status_bin:"):
            return Resp(self, b"\xff\xfe\x80 gateway says no \xe9", int(kind[11:]))
        if kind.startswith("status:"):
            return Resp(self, body, int(kind[7:]))
        if kind.startswith("nostatus:"):
            return Resp(self, body, int(kind[9:]), has_status=False)
        if kind.startswith("exc_read:"):
            return Resp(self, body, status, read_exc=self._exc(kind[9:]))
        if kind.startswith("json_type:"):
            alt = {"list": b"[1, 2]", "null": b"null", "str": b'"ok"', "num": b"42"}[kind[10:]]
            return Resp(self, alt, status)
        if kind == "value_notlist":
            try:
                d = json.loads(body)
                if "value" in d:
                    d["value"] = {"unexpected": "object"}
                else:
                    d = {"value": 7}
                return Resp(self, json.dumps(d).encode(), status)
            except Exception:
                return Resp(self, b'{"value": 7}', status)
        if kind == "body_nonutf8":
            return Resp(self, b"\xff\xfe\x00{" + body, status)
        raise AssertionError("unknown fault kind " + kind)

    @staticmethod
    def _exc(name):
        if name == "TimeoutError":
            return TimeoutError("injected: timed out")
        if name == "ConnectionResetError":
            return ConnectionResetError(104, "injected: connection reset by peer")
        if name == "IncompleteRead":
            return http.client.IncompleteRead(b"{", 100)
        raise AssertionError(name)

    # -- request classification (for k-classes and evidence)
    def classify(self, url, method):
        if url.startswith(LOGIN):
            return "token"
        p = urlsplit(url)
        path = p.path
        if "/root:/" in path and not path.endswith(":/children"):
            return "folder_by_path"
        if path.endswith("/children"):
            return "children_next" if "$skiptoken" in p.query else "children"
        if "/sites/" in path and "/drive" not in path:
            return "site"
        return "other"

    # -- the server proper
    def _err(self, url, code, msg):
        raise HTTPError(url, code, msg, {}, io.BytesIO(json.dumps({"error": {"code": msg}}).encode()))

    def handle(self, request, url, method):
        site = self.lib["site"]
        if url.startswith(LOGIN):
            want = f"{LOGIN}/{site['tenant']}/oauth2/v2.0/token"
            if url != want or method != "POST":
                self._err(url, 400, "bad_token_endpoint")
            form = parse_qs((request.data or b"").decode("utf-8", "replace"), keep_blank_values=True)
            exp = {"client_id": site["client_id"], "client_secret": site["client_secret"], "scope": site["scope"],
                   "grant_type": "client_credentials"}
            for kx, vx in exp.items():
                if form.get(kx) != [vx]:
                    self._err(url, 400, "invalid_client:" + kx)
            self.ntok += 1
            tok = f"tok{self.ntok}.{site['tenant'][:4]}"
            self.tokens.add(tok)
            return 200, json.dumps({"token_type": "Bearer", "expires_in": 3599, "access_token": tok}).encode()
        if not url.startswith(GRAPH + "/"):
            self._err(url, 404, "unknown_host")
        auth = request.get_header("Authorization") or ""
        if not auth.startswith("Bearer ") or auth[7:] not in self.tokens:
            self._err(url, 401, "InvalidAuthenticationToken")
        if method != "GET":
            self._err(url, 405, "method")
        p = urlsplit(url)
        if p.fragment:
            self._err(url, 400, "fragment_in_url")
        segs = p.path[len("/v1.0/"):].split("/")
        if segs[0] != "sites" or len(segs) < 2:
            self._err(url, 404, "not_found")
        if len(segs) == 2 or (len(segs) > 2 and segs[2] not in ("drive", "drives")):
            # site lookup: sites/{hostname}[:{/site/path}]
            ident = unquote("/".join(segs[1:]))
            if ident == site["lookup"]:
                return 200, json.dumps({"id": site["id"], "displayName": "Sim", "webUrl": site["url"]}).encode()
            self._err(url, 404, "itemNotFound:site")
        if unquote(segs[1]) != site["id"]:
            self._err(url, 404, "itemNotFound:site_id")
        rest = segs[2:]
        if rest[0] == "drive":
            dname = ""
            rest = rest[1:]
        else:
            if len(rest) < 2:
                return 200, json.dumps({"value": [{"id": d or "default"} for d in self.lib["drives"]]}).encode()
            dname = unquote(rest[1])
            rest = rest[2:]
        if dname not in self.lib["drives"]:
            self._err(url, 404, "itemNotFound:drive")
        q = parse_qs(p.query, keep_blank_values=True)
        # root/children | items/{id}/children | root:/{path} | root:/{path}:/children
        if rest[:2] == ["root", "children"] and len(rest) == 2:
            return self._children(url, dname, None, q)
        if rest[0] == "items" and len(rest) == 3 and rest[2] == "children":
            iid = unquote(rest[1])
            it = self.by_id.get((dname, iid))
            if it is None or it["kind"] != "folder":
                self._err(url, 404, "itemNotFound:item")
            return self._children(url, dname, it, q)
        if rest[0] == "root:":
            raw = "/".join(rest[1:])
            want_children = False
            if raw.endswith(":/children"):
                raw = raw[: -len(":/children")]
                want_children = True
            elif raw.endswith(":"):
                raw = raw[:-1]
            path = unquote(raw)
            it = self._by_path(dname, path)
            if it is None:
                self._err(url, 404, "itemNotFound:path")
            if want_children:
                if it["kind"] != "folder":
                    self._err(url, 400, "notAFolder")
                return self._children(url, dname, it, q)
            return 200, json.dumps(self._render(it)).encode()
        self._err(url, 404, "not_found")

    def _by_path(self, dname, path):
        cur = self.lib["drives"][dname]
        it = None
        parts = [s for s in path.split("/")]
        if parts == [""]:
            return None
        for i, name in enumerate(parts):
            hit = None
            for c in cur:
                # SharePoint paths are case-insensitive; keep it strict enough to expose quoting bugs
                if c["name"] == name:
                    hit = c
                    break
            if hit is None:
                return None
            it = hit
            cur = hit["children"] if hit["kind"] == "folder" else []
            if hit["kind"] != "folder" and i != len(parts) - 1:
                return None
        return it

    def _children(self, url, dname, folder, q):
        items = self.lib["drives"][dname] if folder is None else folder["children"]
        off = 0
        if "$skiptoken" in q:
            st = q["$skiptoken"][0]
            if st not in self.skip:
                self._err(url, 400, "bad_skiptoken")
            d2, fid, off = self.skip[st]
            if d2 != dname or fid != (folder["id"] if folder else None):
                self._err(url, 400, "skiptoken_mismatch")
        psize = self.pages[self.nresp_pages % len(self.pages)]
        self.nresp_pages += 1
        page = items[off: off + psize]
        body = {"@odata.context": "ctx", "value": [self._render(it) for it in page]}
        if off + psize < len(items) or (psize == 0 and off < len(items)):
            st = f"s{len(self.skip)}x{off + psize}"
            self.skip[st] = (dname, folder["id"] if folder else None, off + psize)
            base = url.split("?")[0]
            body["@odata.nextLink"] = f"{base}?$expand=listItem($expand=fields)&$skiptoken={st}"
        if self.log:
            self.log.ev("page", dname, folder["id"] if folder else None, off, psize, len(page))
        return 200, json.dumps(body).encode()

    def _render(self, it):
        d = {"id": it["id"], "name": it["name"], "webUrl": "https://sim/" + it["id"]}
        if it["kind"] == "folder":
            d["folder"] = {} if it.get("nocount") else {"childCount": len(it["children"])}
        elif it["kind"] == "file":
            f = {}
            if it.get("mime") is not None:
                f["mimeType"] = it["mime"]
            d["file"] = f
            d["@microsoft.graph.downloadUrl"] = "https://sim/dl/" + it["id"]
        else:
            d["package"] = {"type": "oneNote"}
        for src, dst in (("size", "size"), ("created", "createdDateTime"), ("modified", "lastModifiedDateTime")):
            if it.get(src) is not None:
                d[dst] = it[src]
        if it.get("fields") is not None:
            d["listItem"] = {"id": "9", "fields": it["fields"]}
        return d
