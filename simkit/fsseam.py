"""Seam S3: sandboxed host file system -- audit log of every FS call, canary files, FS fault injection (DESIGN.md 2.3)."""
from __future__ import annotations

import builtins
import errno
import os
import shutil
import sys
import tempfile
import types

PATH_EVENTS = {
    "open": 0, "os.mkdir": 0, "os.remove": 0, "os.rmdir": 0, "os.rename": (0, 1), "os.symlink": (0, 1), "os.link": (0, 1),
    "os.chmod": 0, "os.chown": 0, "os.truncate": 0, "os.utime": 0, "os.scandir": 0, "os.listdir": 0, "os.mkfifo": 0, "os.mknod": 0,
    "shutil.rmtree": 0, "shutil.copyfile": (0, 1), "shutil.copytree": (0, 1), "shutil.move": (0, 1), "shutil.copymode": (0, 1),
    "shutil.copystat": (0, 1), "shutil.make_archive": 0, "shutil.unpack_archive": (0, 1), "tempfile.mkstemp": 0, "tempfile.mkdtemp": 0,
    "os.chdir": 0, "os.replace": (0, 1), "pathlib.Path.glob": 0, "glob.glob": 0, "os.walk": 0,
}


class Audit:
    """One process-wide audit hook (hooks cannot be removed); switched on only around library calls."""

    def __init__(self):
        self.enabled = False
        self.events: list[tuple] = []
        self.installed = False

    def install(self):
        if self.installed:
            return
        self.installed = True
        ev = self.events
        me = self

        def hook(name, args):
            if not me.enabled:
                return
            idx = PATH_EVENTS.get(name)
            if idx is None:
                return
            try:
                if isinstance(idx, tuple):
                    paths = [args[i] for i in idx if i < len(args)]
                else:
                    paths = [args[idx]] if len(args) > idx else []
                extra = args[1] if name == "open" and len(args) > 1 else None
                flags = args[2] if name == "open" and len(args) > 2 else None
                dir_fd = None
                if name in ("os.remove", "os.rmdir", "os.mkdir", "os.chmod", "os.utime", "os.mkfifo", "os.mknod") and len(args) > 1:
                    last = args[-1]
                    if isinstance(last, int) and not isinstance(last, bool) and last >= 0 and name != "os.chmod":
                        dir_fd = last
                    elif name == "os.mkdir" and len(args) > 2 and isinstance(args[2], int) and args[2] >= 0:
                        dir_fd = args[2]
                for p in paths:
                    if isinstance(p, int) or p is None:
                        continue  # fd-based
                    if isinstance(p, bytes):
                        p = os.fsdecode(p)
                    p = str(p)
                    if dir_fd is not None and not os.path.isabs(p):
                        try:
                            p = os.path.join(os.readlink(f"/proc/self/fd/{dir_fd}"), p)
                        except OSError:
                            pass
                    ev.append((name, p, extra, flags))
            except Exception:
                pass

        sys.addaudithook(hook)


AUDIT = Audit()


def resolve(p: str, cwd: str) -> str:
    if not os.path.isabs(p):
        p = os.path.join(cwd, p)
    return os.path.realpath(p)


def is_write_open(mode, flags) -> bool:
    if isinstance(mode, str):
        return any(c in mode for c in "wax+")
    if isinstance(flags, int):
        return bool(flags & (os.O_WRONLY | os.O_RDWR | os.O_CREAT | os.O_TRUNC | os.O_APPEND))
    return False


class Sandbox:
    """<root>/tmp (private temp root), <root>/cwd, <root>/host/... canaries."""

    def __init__(self, root: str, tag: str, token: str):
        self.root = os.path.realpath(root)
        self.tmp = os.path.join(self.root, "tmp")
        self.cwd = os.path.join(self.root, "cwd")
        self.host = os.path.join(self.root, "host")
        self.token = token
        for d in (self.tmp, self.cwd, self.host, os.path.join(self.host, "sub")):
            os.makedirs(d, exist_ok=True)
        self.canaries = {}
        for rel in ("host/secret.txt", "host/sub/passwd.csv", "cwd/local.txt", "host/notes.md", "secret.txt", "tmp_sibling.txt"):
            p = os.path.join(self.root, rel)
            with open(p, "w") as f:
                f.write(f"CANARY-{token}-{rel}\n")
            os.utime(p, (1_600_000_000, 1_600_000_000))
            self.canaries[p] = (f"CANARY-{token}-{rel}\n", os.stat(p).st_mtime_ns)

    def enter(self):
        self._old = (tempfile.tempdir, os.getcwd())
        tempfile.tempdir = self.tmp
        os.chdir(self.cwd)

    def leave(self):
        tempfile.tempdir, cwd = self._old
        os.chdir(cwd)

    def listing(self) -> set[str]:
        out = set()
        for r, ds, fs in os.walk(self.root):
            for x in ds + fs:
                out.add(os.path.relpath(os.path.join(r, x), self.root))
        return out

    def canaries_intact(self) -> list[str]:
        bad = []
        for p, (content, mt) in self.canaries.items():
            try:
                if open(p).read() != content or os.stat(p).st_mtime_ns != mt:
                    bad.append(p)
            except OSError:
                bad.append(p)
        return bad

    def tmp_entries(self) -> list[str]:
        return sorted(os.listdir(self.tmp))

    def destroy(self):
        shutil.rmtree(self.root, ignore_errors=True)


def nfds() -> int:
    return len(os.listdir("/proc/self/fd"))


# ------------------------------------------------------------------------------------------------ fault wrappers
class FsFaults:
    """Shadows open / os / tempfile names inside the archive modules; raises OSError on the j-th matching call."""

    def __init__(self):
        self.plan = None  # (kind, j)
        self.counts = {"write_open": 0, "write": 0, "read_open": 0, "makedirs": 0, "mkdtemp": 0}
        self.fired = []
        self._mods = []

    def _hit(self, kind):
        self.counts[kind] += 1
        if self.plan and self.plan[0] == kind and self.plan[1] == self.counts[kind]:
            self.fired.append(self.plan)
            return True
        return False

    def install(self, modules):
        ff = self
        real_open = builtins.open

        class FaultyFile:
            def __init__(self, f):
                self._f = f

            def write(self, b):
                if ff._hit("write"):
                    raise OSError(errno.ENOSPC, "injected: No space left on device")
                return self._f.write(b)

            def __getattr__(self, n):
                return getattr(self._f, n)

            def __enter__(self):
                self._f.__enter__()
                return self

            def __exit__(self, *a):
                return self._f.__exit__(*a)

            def __iter__(self):
                return iter(self._f)

        def sim_open(file, mode="r", *a, **k):
            if any(c in mode for c in "wax+"):
                if ff._hit("write_open"):
                    raise OSError(errno.EACCES, "injected: Permission denied", str(file))
                return FaultyFile(real_open(file, mode, *a, **k))
            if ff._hit("read_open"):
                raise OSError(errno.EIO, "injected: Input/output error", str(file))
            return real_open(file, mode, *a, **k)

        os_proxy = types.ModuleType("os")
        os_proxy.__dict__.update({k: v for k, v in vars(os).items() if not k.startswith("__")})

        def makedirs(name, mode=0o777, exist_ok=False):
            if ff._hit("makedirs"):
                raise OSError(errno.EACCES, "injected: Permission denied", str(name))
            return os.makedirs(name, mode, exist_ok)

        os_proxy.makedirs = makedirs
        for m in modules:
            saved = {}
            if "open" in vars(m):
                saved["open"] = vars(m)["open"]
            m.open = sim_open
            if getattr(m, "os", None) is os:
                saved["os"] = os
                m.os = os_proxy
            self._mods.append((m, saved))

    def remove(self):
        for m, saved in self._mods:
            if "open" in saved:
                m.open = saved["open"]
            else:
                try:
                    del m.open
                except AttributeError:
                    pass
            if "os" in saved:
                m.os = saved["os"]
        self._mods = []

    def reset(self, plan=None):
        self.plan = plan
        for k in self.counts:
            self.counts[k] = 0
        self.fired = []
