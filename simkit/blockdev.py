"""Seams S1/S2 fault operators (DESIGN.md 2.4).

S1: faults of a simulated block device holding the stored file (truncate = torn/short write, bit rot, zeroed sector = lost write,
    duplicated / misdirected sector, foreign splice, stale tail, swapped sectors).
S2: faults of a member read inside a container whose shell stays valid (ZIP member re-stored with a correct CRC, TAR member
    re-written): truncate, flip, count/length-field corruption, dropped / duplicated / replaced member, XML element drop / duplication.
Every operation is an explicit JSON list so that a replay never depends on PRNG draw order.
"""
from __future__ import annotations

import io
import re
import struct
import tarfile
import zipfile

BIG = [0, 1, 0x7FFF, 0xFFFF, 2 ** 31 - 1, 2 ** 32 - 1, 999_999_999]


# ------------------------------------------------------------------------------------------------ S1
def structure_offsets(data: bytes) -> list[int]:
    """offsets worth aiming at: container headers, directory records, keywords, first/last bytes"""
    offs = set(range(0, min(64, len(data)))) | set(range(max(0, len(data) - 64), len(data)))
    for pat in (b"PK\x03\x04", b"PK\x01\x02", b"PK\x05\x06", b"xref", b"trailer", b"startxref", b" obj", b"endobj", b"stream",
                b"{\\", b"}", b"\n--", b"boundary", b"\nFrom ", b"<?xml", b"Content-Type", b"\xd0\xcf\x11\xe0", b"ustar", b"7z\xbc\xaf"):
        start = 0
        n = 0
        while n < 40:
            i = data.find(pat, start)
            if i < 0:
                break
            offs.update(range(i, min(len(data), i + len(pat) + 30)))
            start = i + 1
            n += 1
    if data[:8] == b"\xd0\xcf\x11\xe0\xa1\xb1\x1a\xe1" and len(data) >= 512:
        offs.update(range(0, 512))
        try:
            ssz = 1 << struct.unpack_from("<H", data, 30)[0]
            dirsec = struct.unpack_from("<I", data, 48)[0]
            o = 512 + dirsec * ssz
            offs.update(range(o, min(len(data), o + 4 * 128)))
            fat0 = struct.unpack_from("<I", data, 76)[0]
            o = 512 + fat0 * ssz
            offs.update(range(o, min(len(data), o + 256)))
        except Exception:
            pass
    return sorted(o for o in offs if 0 <= o < len(data))


SIGS = (b"\x89PNG\r\n\x1a\n", b"\xff\xd8\xff", b"GIF8", b"%PDF", b"PK\x03\x04", b"<?xml", b"II*\x00")


def object_offsets(data: bytes) -> list[int]:
    """start offsets of embedded objects (pictures, nested packages) recognised by their signatures"""
    out = []
    for sig in SIGS:
        i = data.find(sig, 1)
        n = 0
        while i > 0 and n < 24:
            out.append(i)
            i = data.find(sig, i + 1)
            n += 1
    return sorted(set(out))


def gen_s1(rng, data: bytes, others: list[bytes]) -> list:
    """one storage fault as an explicit op"""
    n = len(data)
    if n == 0:
        return ["append", "00" * 8]
    ssz = rng.choice([1, 16, 512, 4096])
    nsec = max(1, (n + ssz - 1) // ssz)
    so = structure_offsets(data)

    def off():
        if so and rng.random() < 0.6:
            return rng.choice(so)
        return rng.randrange(n)

    kind = rng.choice(["trunc", "flip", "flip", "flipn", "zero", "copysec", "swapsec", "splice", "stale", "append", "wrongfile", "empty"]
                      if rng.random() < 0.97 else ["empty"])
    objs = object_offsets(data) if rng.random() < 0.12 else []
    if objs and rng.random() < 0.4:
        # lost write of a whole extent: everything from just inside an embedded object up to (about) the next one reads back as zeros
        i = rng.randrange(len(objs))
        nxt = [o for o in objs if o > objs[i]]
        start = objs[i] + rng.choice([2, 2, 4, 20, 100, 600, 4096])
        end = (nxt[0] - rng.choice([0, 8, 25, 64])) if nxt and rng.random() < 0.8 else min(n, start + rng.choice([65536, 262144, 1 << 20]))
        if end > start:
            return ["zero", start, end - start]
    if len(objs) >= 2:
        # misdirected write of a whole extent: the bytes of one embedded object (with d bytes of its record header) land on another
        i, j = rng.sample(range(len(objs)), 2)
        d = rng.choice([0, 0, 8, 16, 17, 25, 33])
        nxt = [o for o in objs if o > objs[i]]
        ln = min((nxt[0] if nxt else n) - objs[i] + d, 262144)
        return ["copyrun", max(0, objs[i] - d), max(0, objs[j] - d), max(16, ln)]
    if kind == "trunc":
        return ["trunc", off()]
    if kind == "flip":
        return ["flip", [[off(), rng.randrange(8)]]]
    if kind == "flipn":
        return ["flip", [[off(), rng.randrange(8)] for _ in range(rng.choice([2, 3, 8, 32]))]]
    if kind == "zero":
        o = off() // ssz * ssz
        return ["zero", o, ssz if ssz > 1 else rng.choice([1, 4, 16])]
    if kind == "copysec":
        return ["copysec", rng.randrange(nsec), rng.randrange(nsec), ssz]
    if kind == "swapsec":
        return ["swapsec", rng.randrange(nsec), rng.randrange(nsec), ssz]
    if kind == "splice" and others:
        oi = rng.randrange(len(others))
        ln = rng.choice([16, 512, 4096])
        return ["splice", off(), oi, rng.randrange(max(1, len(others[oi]))), ln]
    if kind == "stale":
        return ["stale", rng.choice([1, 16, 512, 4096])]
    if kind == "append":
        return ["append", bytes(rng.randrange(256) for _ in range(rng.choice([1, 7, 64]))).hex()]
    if kind == "wrongfile" and others:
        return ["wrongfile", rng.randrange(len(others))]
    if kind == "empty":
        return ["trunc", 0]
    return ["flip", [[off(), rng.randrange(8)]]]


def apply_s1(data: bytes, op: list, others: list[bytes]) -> bytes:
    b = bytearray(data)
    k = op[0]
    if k == "trunc":
        del b[op[1]:]
    elif k == "flip":
        for o, bit in op[1]:
            if o < len(b):
                b[o] ^= 1 << bit
    elif k == "zero":
        o, ln = op[1], op[2]
        b[o:o + ln] = bytes(len(b[o:o + ln]))
    elif k == "copysec":
        i, j, ssz = op[1], op[2], op[3]
        src = bytes(b[i * ssz:(i + 1) * ssz])
        b[j * ssz:j * ssz + len(src)] = src[: max(0, len(b) - j * ssz)] if j * ssz < len(b) else b""
    elif k == "copyrun":
        src, dst, ln = op[1], op[2], op[3]
        chunk = bytes(b[src:src + ln])
        chunk = chunk[: max(0, len(b) - dst)]
        b[dst:dst + len(chunk)] = chunk
    elif k == "swapsec":
        i, j, ssz = op[1], op[2], op[3]
        a, c = bytes(b[i * ssz:(i + 1) * ssz]), bytes(b[j * ssz:(j + 1) * ssz])
        if len(a) == len(c) and i != j:
            b[i * ssz:(i + 1) * ssz] = c
            b[j * ssz:(j + 1) * ssz] = a
    elif k == "splice":
        o, oi, oo, ln = op[1], op[2], op[3], op[4]
        src = others[oi % len(others)][oo:oo + ln] if others else b""
        b[o:o + len(src)] = src
    elif k == "stale":
        ln = op[1]
        b += bytes(b[-ln:]) if b else b"\0" * ln
    elif k == "append":
        b += bytes.fromhex(op[1])
    elif k == "wrongfile":
        return bytes(others[op[1] % len(others)]) if others else bytes(b)
    return bytes(b)


# ------------------------------------------------------------------------------------------------ XML / text member edits
_TAG = re.compile(rb"<(/?)([A-Za-z_][\w:.\-]*)([^<>]*?)(/?)>", re.S)


def _elements(xml: bytes) -> list[tuple[int, int]]:
    spans, stack = [], []
    for m in _TAG.finditer(xml):
        closing, name, _attrs, selfclose = m.group(1), m.group(2), m.group(3), m.group(4)
        if closing:
            while stack:
                n2, s2 = stack.pop()
                if n2 == name:
                    spans.append((s2, m.end()))
                    break
        elif selfclose:
            spans.append((m.start(), m.end()))
        else:
            stack.append((name, m.start()))
    spans.sort()
    return spans


_NUMATTR = re.compile(rb'([\w:.\-]+)="(\d+)"')
_ATTR = re.compile(rb'\s([\w:.\-]+)="[^"]*"')


NUM_SHAPES = [b"@.5", b"#..5", b".", b"..", b"#.", b".#", b"-", b"+@", b"@e", b"@e999", b"1e-999", b"NaN", b"inf", b"-@", b"#,5", b"0x#", b"\xd9\xa3", b"", b"@ @",
              b"0", b"-0", b"00000000000000000000#", b"@" + b"0" * 40]
VARIANT_TYPES = [2, 3, 5, 7, 8, 11, 19, 30, 31, 64, 65, 71, 0x1003, 0x101E, 0]


def edit_member(data: bytes, edit: list) -> bytes:
    k = edit[0]
    if k == "trunc":
        return data[: edit[1] % (len(data) + 1)]
    if k == "vt_retype":
        # OLE property set (SummaryInformation ...): the type tag of one property is replaced by another variant type; the container
        # shell, the section table and the value bytes stay as they are (hostile record content in a valid shell)
        import struct
        try:
            if data[:2] != b"\xfe\xff" or len(data) < 56:
                return data
            sec = struct.unpack_from("<I", data, 44)[0]
            _size, count = struct.unpack_from("<II", data, sec)
            if not 0 < count < 200:
                return data
            _pid, off = struct.unpack_from("<II", data, sec + 8 + 8 * (edit[1] % count))
            b = bytearray(data)
            struct.pack_into("<I", b, sec + off, edit[2])
            return bytes(b)
        except Exception:
            return data
    if k == "dupobj":
        # the extent holding one embedded object (with the record header in front of it) was written twice: a second copy follows the data
        objs = object_offsets(data)
        if not objs:
            return data
        i = edit[1] % len(objs)
        start = max(0, objs[i] - edit[2])
        nxt = [o for o in objs if o > objs[i]]
        end = max(start + 1, nxt[0] - edit[2]) if nxt else min(len(data), start + 400_000)
        return data + data[start:end]
    if k == "zerotail":
        # the member keeps its recorded length but its tail was never written: from a point inside it (biased to just inside
        # an embedded object) everything reads back as zeros
        if not data:
            return data
        objs = object_offsets(data) if edit[2] >= 0 else []
        o = (objs[edit[1] % len(objs)] + edit[2]) if objs else edit[1] % len(data)
        o = min(o, len(data))
        return data[:o] + bytes(len(data) - o)
    if k == "flip":
        b = bytearray(data)
        for o, bit in edit[1]:
            if b:
                b[o % len(b)] ^= 1 << bit
        return bytes(b)
    if k == "empty":
        return b""
    if k == "xml_del":
        sp = _elements(data)
        if len(sp) > 1:
            s, e = sp[1 + edit[1] % (len(sp) - 1)]  # never the root
            return data[:s] + data[e:]
        return data
    if k == "xml_dup":
        sp = _elements(data)
        if len(sp) > 1:
            s, e = sp[1 + edit[1] % (len(sp) - 1)]
            if e - s < 200_000:
                return data[:e] + data[s:e] * edit[2] + data[e:]
        return data
    if k == "xml_nest":
        sp = _elements(data)
        if len(sp) > 1:
            s, e = sp[1 + edit[1] % (len(sp) - 1)]
            m = _TAG.match(data, s)
            if m and not m.group(4) and e - s < 50_000:
                open_tag = data[m.start():m.end()]
                close_tag = b"</" + m.group(2) + b">"
                d = edit[2]
                return data[:s] + open_tag * d + data[s:e] + close_tag * d + data[e:]
        return data
    if k == "num_attr":
        ms = list(_NUMATTR.finditer(data))
        if ms:
            m = ms[edit[1] % len(ms)]
            return data[:m.start(2)] + str(edit[2]).encode() + data[m.end(2):]
        return data
    if k == "del_attr":
        ms = list(_ATTR.finditer(data))
        if ms:
            m = ms[edit[1] % len(ms)]
            return data[:m.start()] + data[m.end():]
        return data
    if k == "xml_empty":
        sp = _elements(data)
        if len(sp) > 1:
            # prefer container elements (those holding child elements): emptying them changes structure, not just one value
            cont = [x for x in sp[1:] if data.find(b"<", x[0] + 1, x[1] - 2) > 0 and data[x[0] + 1:x[1]].count(b"<") > 1]
            pool = cont if (cont and edit[1] % 3 != 0) else sp[1:]
            st, e = pool[(edit[1] // 3) % len(pool)]
            m = _TAG.match(data, st)
            if m and not m.group(4):
                close = data.rfind(b"</", st, e)
                if close > m.end():
                    return data[:m.end()] + data[close:]
        return data
    if k == "attr_mangle":
        ms = list(re.finditer(rb'([\w:.\-]+)="([^"]+)"', data))
        if ms:
            m = ms[edit[1] % len(ms)]
            v = bytearray(m.group(2))
            pos = edit[2] % len(v)
            act = edit[3]
            if act == "dup":
                v[pos:pos] = v[pos:pos + 1]
            elif act == "del":
                del v[pos]
            elif act == "dot":
                v[pos:pos] = b"."
            elif act == "minus":
                v[pos:pos] = b"-"
            elif act == "letter":
                v[pos] = ord("x")
            elif act == "space":
                v[pos:pos] = b" "
            return data[:m.start(2)] + bytes(v) + data[m.end(2):]
        return data
    if k == "num_mangle":
        # an attribute that holds a number (with or without a unit) gets a malformed number of a shape lenient parsers trip over
        ms = [m for m in re.finditer(rb'([\w:.\-]+)="(-?\d[\d.]*)([a-zA-Z%]*)"', data)]
        if ms:
            m = ms[edit[1] % len(ms)]
            num, unit = m.group(2), m.group(3)
            shape = NUM_SHAPES[edit[2] % len(NUM_SHAPES)]
            new = shape.replace(b"@", num).replace(b"#", num.split(b".")[0] or b"0")
            return data[:m.start(2)] + new + unit + data[m.end(3):]
        return data
    if k == "u16" or k == "u32":
        w = 2 if k == "u16" else 4
        if len(data) >= w:
            o = edit[1] % (len(data) - w + 1)
            v = edit[2] & ((1 << (8 * w)) - 1)
            return data[:o] + v.to_bytes(w, "little") + data[o + w:]
        return data
    return data


def gen_edit(rng, data: bytes) -> list:
    is_xml = data[:200].lstrip()[:1] == b"<"
    if is_xml and rng.random() < 0.75:
        k = rng.choice(["xml_del", "xml_del", "xml_dup", "xml_nest", "num_attr", "num_attr", "del_attr", "xml_empty", "attr_mangle", "attr_mangle", "num_mangle", "num_mangle"])
        if k == "num_mangle":
            return ["num_mangle", rng.randrange(1 << 20), rng.randrange(1 << 10)]
        if k == "xml_empty":
            return ["xml_empty", rng.randrange(1 << 20)]
        if k == "attr_mangle":
            return ["attr_mangle", rng.randrange(1 << 20), rng.randrange(1 << 10), rng.choice(["dup", "del", "dot", "dot", "minus", "letter", "space"])]
        if k == "xml_del":
            return ["xml_del", rng.randrange(1 << 20)]
        if k == "xml_dup":
            return ["xml_dup", rng.randrange(1 << 20), rng.choice([1, 2, 50, 2000])]
        if k == "xml_nest":
            return ["xml_nest", rng.randrange(1 << 20), rng.choice([2, 50, 400, 3000])]
        if k == "num_attr":
            return ["num_attr", rng.randrange(1 << 20), rng.choice(BIG + [2, 3, 100, 5000, 1_048_576])]
        return ["del_attr", rng.randrange(1 << 20)]
    if data[:4] == b"\xfe\xff\x00\x00" and rng.random() < 0.5:
        return ["vt_retype", rng.randrange(1 << 16), rng.choice(VARIANT_TYPES)]
    k = rng.choice(["trunc", "flip", "flip", "u16", "u32", "empty", "zerotail", "dupobj"])
    if k == "dupobj":
        return ["dupobj", rng.randrange(1 << 20), rng.choice([25, 25, 41, 8, 0])]
    if k == "zerotail":
        return ["zerotail", rng.randrange(1 << 30), rng.choice([-1, 2, 4, 6, 20, 100, 600])]
    if k == "trunc":
        return ["trunc", rng.randrange(1 << 30)]
    if k == "flip":
        return ["flip", [[rng.randrange(1 << 30), rng.randrange(8)] for _ in range(rng.choice([1, 1, 3, 16]))]]
    if k in ("u16", "u32"):
        return [k, rng.randrange(1 << 30), rng.choice(BIG)]
    return ["empty"]


# ------------------------------------------------------------------------------------------------ S2 containers
def is_zip(data: bytes) -> bool:
    return data[:4] == b"PK\x03\x04"


def zip_members(data: bytes) -> list[str]:
    try:
        with zipfile.ZipFile(io.BytesIO(data)) as z:
            return [i.filename for i in z.infolist()]
    except Exception:
        return []


def rebuild_zip(data: bytes, op: list, others: list[bytes]) -> bytes:
    """op = ['zip', member_index, action...] ; actions: ['edit', edit] | ['drop'] | ['dup', newname] | ['replace', other_member_index]"""
    out = io.BytesIO()
    with zipfile.ZipFile(io.BytesIO(data)) as zin, zipfile.ZipFile(out, "w") as zout:
        infos = zin.infolist()
        if not infos:
            return data
        k = op[1] % len(infos)
        act = op[2]
        for idx, info in enumerate(infos):
            try:
                payload = zin.read(info)
            except Exception:
                payload = b""
            zi = zipfile.ZipInfo(info.filename, date_time=info.date_time)
            zi.compress_type = info.compress_type if info.compress_type in (zipfile.ZIP_STORED, zipfile.ZIP_DEFLATED) else zipfile.ZIP_DEFLATED
            zi.external_attr = info.external_attr
            if idx == k:
                if act[0] == "drop":
                    continue
                if act[0] == "edit":
                    payload = edit_member(payload, act[1])
                elif act[0] == "replace":
                    j = act[1] % len(infos)
                    try:
                        payload = zin.read(infos[j])
                    except Exception:
                        payload = b""
                zout.writestr(zi, payload)
                if act[0] == "dup":
                    z2 = zipfile.ZipInfo(act[1], date_time=info.date_time)
                    z2.compress_type = zi.compress_type
                    zout.writestr(z2, payload)
            else:
                zout.writestr(zi, payload)
    return out.getvalue()


def gen_s2_zip(rng, data: bytes) -> list | None:
    names = zip_members(data)
    if not names:
        return None
    # bias to the XML parts that drive parsing
    weights = [5 if n.endswith((".xml", ".opf", ".rels", ".xhtml", ".html", ".ncx")) else 1 for n in names]
    k = rng.choices(range(len(names)), weights)[0]
    r = rng.random()
    if r < 0.78:
        try:
            with zipfile.ZipFile(io.BytesIO(data)) as z:
                payload = z.read(names[k])
        except Exception:
            payload = b""
        return ["zip", k, ["edit", gen_edit(rng, payload)]]
    if r < 0.88:
        return ["zip", k, ["drop"]]
    if r < 0.94:
        return ["zip", k, ["dup", rng.choice(["copy_" + names[k].split("/")[-1], names[k] + ".bak", "x/" + names[k]])]]
    return ["zip", k, ["replace", rng.randrange(len(names))]]


def is_tar(data: bytes) -> bool:
    return len(data) > 262 and data[257:262] == b"ustar"


def rebuild_tar(data: bytes, op: list) -> bytes:
    out = io.BytesIO()
    with tarfile.open(fileobj=io.BytesIO(data), mode="r:*") as tin, tarfile.open(fileobj=out, mode="w", format=tarfile.PAX_FORMAT) as tout:
        members = tin.getmembers()
        regs = [i for i, m in enumerate(members) if m.isreg()]
        k = regs[op[1] % len(regs)] if regs else -1
        for idx, m in enumerate(members):
            f = tin.extractfile(m) if m.isreg() else None
            payload = f.read() if f else b""
            if idx == k:
                if op[2][0] == "drop":
                    continue
                if op[2][0] == "edit":
                    payload = edit_member(payload, op[2][1])
            m2 = tarfile.TarInfo(m.name)
            m2.type, m2.mode, m2.mtime, m2.linkname = m.type, m.mode, m.mtime, m.linkname
            m2.size = len(payload) if m.isreg() else 0
            tout.addfile(m2, io.BytesIO(payload) if m.isreg() else None)
    return out.getvalue()


def apply_ops(data: bytes, ops: list, others: list[bytes]) -> bytes:
    """apply a recorded list of S1 / S2 operations in order (an op that cannot be applied is a no-op)"""
    for op in ops:
        try:
            if op[0] == "zip":
                if is_zip(data):
                    data = rebuild_zip(data, op, others)
            elif op[0] == "tar":
                data = rebuild_tar(data, op)
            else:
                data = apply_s1(data, op, others)
        except Exception:
            pass
    return data


def gen_ops(rng, data: bytes, others: list[bytes], s2_bias: float = 0.5, count=None) -> list:
    n = count if count is not None else rng.choice([1, 1, 1, 2, 3])
    ops = []
    cur = data
    for _ in range(n):
        op = None
        if is_zip(cur) and rng.random() < s2_bias:
            op = gen_s2_zip(rng, cur)
        if op is None:
            op = gen_s1(rng, cur, others)
        ops.append(op)
        cur = apply_ops(cur, [op], others)
    return ops
